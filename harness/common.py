"""Shared machinery of the femio verification checks (see DESIGN.md section 1).

Every property module `cXX.py` exposes
    PROP, LEAN_MODULES, THEOREMS, run(ctx) -> None
and reports through the `Ctx` object: correspondence disagreements, oracle failures (= concrete
failing inputs on the real implementation), evaluated cases, samples, distribution.
"""
import contextlib
import fcntl
import hashlib
import json
import os
import random
import re
import shutil
import subprocess
import sys
import tempfile
import time
from pathlib import Path

VERIF = Path(__file__).resolve().parent.parent
LEAN = Path(os.environ.get('FEMIO_VERIF_LEAN', VERIF / 'lean'))
REPO = Path(os.environ.get('FEMIO_REPO', '/repo'))
# evidence committed under evidence/ must come from runs against /repo itself: a run pointed at another tree
# (FEMIO_REPO=<scratch worktree with a seeded change>) writes to evidence-scratch/ (git-ignored) instead
EVIDENCE = VERIF / ('evidence' if str(REPO) == '/repo' and 'FEMIO_VERIF_LEAN' not in os.environ else 'evidence-scratch')
REPLAY = VERIF / 'replay'
CORPUS = VERIF / 'corpus'
ALLOWED_AXIOMS = {'propext', 'Classical.choice', 'Quot.sound'}
FORBIDDEN = re.compile(
    r'\bsorry\b|\badmit\b|^\s*axiom\s|native_decide|bv_decide|implemented_by|\bunsafe\s|maxHeartbeats\s+0\b',
    re.M)

TRUSTED_BASE = [
    'Lean 4.33.0 kernel (thorough tier: re-checked by leanchecker)',
    'axioms allowed per theorem: propext, Classical.choice, Quot.sound (audited every run with #print axioms)',
    'Mathlib v4.33.0 as installed',
    'harness/gen_tables.py (tabulating translator /repo -> lean/Femio/Gen/Tables.lean)',
    'the correspondence harness (canonicalisation, line protocol, compiled femio_driver executing the model)',
    'CPython / numpy / pandas / scipy / numba executing femio',
]


class Timeout(Exception):
    pass


def sh(cmd, cwd=None, timeout=None, env=None):
    p = subprocess.run(cmd, cwd=cwd, stdout=subprocess.PIPE, stderr=subprocess.STDOUT,
                       text=True, timeout=timeout, env=env)
    return p.returncode, p.stdout


@contextlib.contextmanager
def build_lock():
    LEAN.mkdir(exist_ok=True)
    with open(LEAN / '.build.lock', 'w') as f:
        fcntl.flock(f, fcntl.LOCK_EX)
        try:
            yield
        finally:
            fcntl.flock(f, fcntl.LOCK_UN)


def strip_comments(src):
    """remove Lean comments (nested block comments and line comments) and string literals"""
    out = []
    i, n, depth = 0, len(src), 0
    while i < n:
        if src.startswith('/-', i):
            depth += 1
            i += 2
        elif depth and src.startswith('-/', i):
            depth -= 1
            i += 2
        elif depth:
            if src[i] == '\n':
                out.append('\n')
            i += 1
        elif src.startswith('--', i):
            while i < n and src[i] != '\n':
                i += 1
        elif src[i] == '"':
            i += 1
            while i < n and src[i] != '"':
                i += 2 if src[i] == '\\' else 1
            i += 1
            out.append('""')
        else:
            out.append(src[i])
            i += 1
    return ''.join(out)


def grep_forbidden():
    hits = []
    for p in sorted((LEAN / 'Femio').rglob('*.lean')) + [LEAN / 'Main.lean']:
        code = strip_comments(p.read_text())
        for m in FORBIDDEN.finditer(code):
            line = code.count('\n', 0, m.start()) + 1
            hits.append(f'{p.relative_to(LEAN)}:{line}: {m.group(0).strip()}')
    return hits


def module_file(mod):
    return LEAN / (mod.replace('.', '/') + '.lean')


def lake_build(targets, timeout=3000):
    with build_lock():
        t0 = time.time()
        rc, out = sh(['lake', 'build'] + list(targets), cwd=LEAN, timeout=timeout)
        return rc == 0, out, time.time() - t0


AX_RE = re.compile(r"^'([^']+)' depends on axioms: \[([^\]]*)\]", re.M | re.S)
NOAX_RE = re.compile(r"^'([^']+)' does not depend on any axioms", re.M)


def audit(prop):
    """run `#print axioms` for every theorem of the property; returns (dict name -> [axioms], raw, ok)"""
    f = LEAN / 'Femio' / 'Audit' / f'{prop}.lean'
    if not f.exists():
        return {}, f'missing {f}', False
    with build_lock():
        rc, out = sh(['lake', 'env', 'lean', str(f.relative_to(LEAN))], cwd=LEAN, timeout=900)
    res = {}
    flat = re.sub(r'\n\s+', ' ', out)
    for m in AX_RE.finditer(flat):
        res[m.group(1)] = [a.strip() for a in m.group(2).split(',') if a.strip()]
    for m in NOAX_RE.finditer(flat):
        res[m.group(1)] = []
    return res, out, rc == 0


class Driver:
    """line-protocol client of the compiled model driver"""

    def __init__(self):
        exe = LEAN / '.lake' / 'build' / 'bin' / 'femio_driver'
        if not exe.exists():
            raise FileNotFoundError(exe)
        self.p = subprocess.Popen([str(exe)], stdin=subprocess.PIPE, stdout=subprocess.PIPE,
                                  text=True, bufsize=1)
        self.n = 0

    def ask(self, line):
        assert '\n' not in line
        self.p.stdin.write(line + '\n')
        self.p.stdin.flush()
        r = self.p.stdout.readline()
        if not r:
            raise RuntimeError('model driver died on: ' + line[:200])
        self.n += 1
        return r.rstrip('\n')

    def ask_many(self, lines):
        """pipelined: writer thread + reader"""
        import threading
        lines = list(lines)

        def w():
            for ln in lines:
                self.p.stdin.write(ln + '\n')
            self.p.stdin.flush()
        t = threading.Thread(target=w)
        t.start()
        out = []
        for _ in lines:
            r = self.p.stdout.readline()
            if not r:
                raise RuntimeError('model driver died')
            out.append(r.rstrip('\n'))
        t.join()
        self.n += len(lines)
        return out

    def close(self):
        try:
            self.p.stdin.close()
            self.p.wait(timeout=10)
        except Exception:
            self.p.kill()


# ---------------------------------------------------------------- protocol encoding helpers

def esc(s):
    if s == '':
        return '%e'
    out = []
    for ch in s:
        if ch in ' %\n\t\r':
            out.append('%%%02X' % ord(ch))
        else:
            out.append(ch)
    return ''.join(out)


def unesc(t):
    if t == '%e':
        return ''
    return re.sub(r'%([0-9A-F]{2})', lambda m: chr(int(m.group(1), 16)), t)


def enc_list(items, f=str):
    items = list(items)
    return ' '.join([str(len(items))] + [f(x) for x in items])


def enc_rat(x):
    """exact rational of a float / int / Fraction"""
    from fractions import Fraction
    fr = Fraction(x)
    return str(fr.numerator) if fr.denominator == 1 else f'{fr.numerator}/{fr.denominator}'


def parse_rat(t):
    from fractions import Fraction
    return Fraction(t)


class Toks:
    """reader for length-prefixed replies"""

    def __init__(self, s):
        self.t = s.split()
        self.i = 0

    def tok(self):
        v = self.t[self.i]
        self.i += 1
        return v

    def nat(self):
        return int(self.tok())

    def rat(self):
        return parse_rat(self.tok())

    def lst(self, f):
        n = self.nat()
        return [f() for _ in range(n)]

    def done(self):
        return self.i == len(self.t)


# ---------------------------------------------------------------- check context

class Ctx:
    def __init__(self, prop, tier, seed):
        self.prop, self.tier, self.seed = prop, tier, seed
        self.rng = random.Random(seed * 1000003 + int(prop[1:]))
        self.t0 = time.time()
        self.evaluations = 0
        self.distinct = set()
        self.samples = []
        self.dist = {}
        self.disagreements = []     # model vs implementation (correspondence)
        self.failures = []          # property oracle failures on the real implementation
        self.notes = []
        self.assumptions = []
        self.driver = None
        self.lean_ok = True
        self.extra = {}
        self.tmp = Path(tempfile.mkdtemp(prefix=f'femio-verif-{prop}-'))

    @property
    def quick(self):
        return self.tier == 'quick'

    def n(self, quick, thorough):
        return quick if self.tier == 'quick' else thorough

    def count(self, key, k=1):
        self.dist[key] = self.dist.get(key, 0) + k

    def case(self, key, sample=None, nontrivial=True):
        """register one evaluated case; `key` identifies it for distinctness"""
        self.evaluations += 1
        if nontrivial:
            self.distinct.add(hashlib.sha1(repr(key).encode()).hexdigest()[:16])
        if sample is not None and len(self.samples) < 6:
            self.samples.append(sample)

    def disagree(self, what, case, impl, model):
        if len(self.disagreements) < 50:
            self.disagreements.append({'what': what, 'case': case, 'impl': impl, 'model': model})
        self.count('disagreement:' + what)

    def fail(self, signature, what, case, observed=None):
        """a concrete input on which the real implementation violates the property"""
        # keep the first 50, and beyond that the first failure of every signature not seen yet (a new kind of
        # violation must never be crowded out by repetitions of a known one)
        if len(self.failures) < 50 or all(f['signature'] != signature for f in self.failures):
            self.failures.append({'signature': signature, 'what': what, 'case': case, 'observed': observed})
        self.count('oracle-failure:' + signature)

    def model(self, line):
        if self.driver is None:
            return None
        return self.driver.ask(line)

    def cleanup(self):
        if self.driver is not None:
            self.driver.close()
        shutil.rmtree(self.tmp, ignore_errors=True)


def load_known():
    f = VERIF / 'known_findings.json'
    if not f.exists():
        return []
    return json.loads(f.read_text())


def jsonable(x):
    import fractions
    try:
        import numpy as np
    except Exception:  # pragma: no cover
        np = None
    if isinstance(x, dict):
        return {str(k): jsonable(v) for k, v in x.items()}
    if isinstance(x, (list, tuple, set, frozenset)):
        return [jsonable(v) for v in x]
    if isinstance(x, fractions.Fraction):
        return str(x)
    if np is not None:
        if isinstance(x, np.ndarray):
            return jsonable(x.tolist())
        if isinstance(x, np.generic):
            return jsonable(x.item())
    if isinstance(x, float):
        if x != x:
            return 'nan'
        if x in (float('inf'), float('-inf')):
            return 'inf' if x > 0 else '-inf'
        return x
    if isinstance(x, (str, int, bool)) or x is None:
        return x
    if isinstance(x, Path):
        return str(x)
    if isinstance(x, bytes):
        return x.hex()
    return repr(x)


def write_replay(prop, obj):
    REPLAY.mkdir(exist_ok=True)
    body = json.dumps(jsonable(obj), indent=1, sort_keys=True)
    h = hashlib.sha1(body.encode()).hexdigest()[:12]
    p = REPLAY / f'{prop}-{h}.json'
    p.write_text(body)
    return p


def corpus_cases(prop):
    d = CORPUS / prop
    if not d.is_dir():
        return []
    out = []
    for f in sorted(d.glob('*.json')):
        try:
            out.append((f.name, json.loads(f.read_text())))
        except Exception:
            pass
    return out


def repo_state():
    rc, head = sh(['git', '-C', str(REPO), 'rev-parse', 'HEAD'])
    rc2, st = sh(['git', '-C', str(REPO), 'status', '--porcelain', '--', 'femio'])
    return {'head': head.strip(), 'dirty_files': [l[3:] for l in st.splitlines()]}


def tree_fingerprint(repo=None):
    """sha256 over the python sources of the femio package of the tree under test (sorted relative paths + contents)"""
    import hashlib
    root = Path(repo or REPO) / 'femio'
    h = hashlib.sha256()
    for f in sorted(root.rglob('*.py')):
        h.update(str(f.relative_to(root)).encode() + b'\0')
        h.update(f.read_bytes() + b'\0')
    return h.hexdigest()


def tree_is_blessed():
    """True iff the femio sources under test are byte-identical to the tree this harness was last validated against
    (blessed_tree.json, written by tools/bless.py after the clean-tree runs of every check).  Used for ONE decision only:
    when the HARNESS ITSELF trips over what the implementation returned and there is no other evidence of breakage, a blessed
    tree means a harness bug (exit 2), a different tree means the correspondence can no longer be established on that tree
    (reported as a broken correspondence, `no-failing-input-found`).  A missing / unreadable file counts as blessed (exit 2)."""
    try:
        want = json.loads((VERIF / 'blessed_tree.json').read_text())['fingerprint']
        return tree_fingerprint() == want
    except Exception:
        return True


def lean_closure(modules):
    """source text of the transitive `import Femio.…` closure of the given modules"""
    seen, todo, text = set(), list(modules), []
    while todo:
        m = todo.pop()
        if m in seen or not m.startswith('Femio'):
            continue
        seen.add(m)
        f = module_file(m)
        if not f.exists():
            continue
        src = f.read_text()
        if m != 'Femio.Gen.Tables':
            text.append(src)
        todo += re.findall(r'^import\s+(Femio[\w.]*)', src, re.M)
    return '\n'.join(text)


def uses_generated(modules, names):
    """which of the generated definitions `names` occur in the import closure of `modules`"""
    src = lean_closure(modules)
    return sorted(n for n in names if re.search(r'(?<![\w.])(?:Femio\.Gen\.|Gen\.)?' + re.escape(n) + r'(?![\w])', src))
