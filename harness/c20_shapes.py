"""C20 - bodies with sharp, blunt and reflex boundary edges, thin layers, and the exact account of the face merges of a run.

Why (DESIGN section 8, seeded C20-5): bricks and sheared bricks have no boundary edge whose dihedral angle is far from
90 degrees, so "two faces are merged across an angle" only ever happened at obtuse edges which the threshold legitimately
admits.  The bodies generated here have

* prisms over kite / isosceles / right-triangle (wedge, ramp) / cut-square / L- / 4-star / parallelogram (thin slab)
  cross-sections whose apex angles 2 atan(p/q) run from 10.4 to 176.4 degrees (knife edges, blunt edges, reflex edges),
  meshed with hexahedra (every cross-section is a conforming union of bilinearly refined convex quadrilaterals) or with
  tetrahedra (each hexahedron pulled from its smallest node id: conforming whatever the node numbering);
* Freudenthal (Kuhn) tet bricks cut by planes x_i - x_j >= k: refined tetrahedra, wedges, cut cubes (3-D corners);
* an integer affine map of positive determinant (scaled rotations keep the angles, shears / oblique extrusions change
  them), integer layer heights (thin slabs), node ids 1..n in a random numbering under every storage order class.

All coordinates are integers (exact in binary64), all element faces exactly planar, so a compression that merges only
coplanar faces conserves the fan volume exactly.

`merge_account` replays compress() stage by stage with femio's own kernels (the Python body of `remove_edges` with the
compiled `remove_one_edge_from_polyhedron` wrapped, checked against the compiled `remove_edges`) and lists, for every
edge removal the code APPLIED, the two faces (as they were when the stage took its decisions) and the exact rational
cosine of their normals (fan area vectors, which is what the repaired `calc_normal` computes): an applied removal is
*admitted* only if cos >= cos_thresh (minus the rounding allowance of the code's own float comparison).  A volume change is explained by the known finding only if every non-coplanar merge
of the run was admitted in that sense.
"""
import math
from fractions import Fraction as F

import numpy as np

from . import common as C
from . import meshgen as MG

# tangent of half the apex angle p/q -> apex = 2 atan(p/q): 10.4, 14.3, 22.6, 28.1, 36.9, 53.1, 67.4, 90, 112.6, 126.9,
# 143.1, 151.9, 165.8, 169.6, 172.8, 176.4 degrees
HALF_TAN = [(1, 11), (1, 8), (1, 5), (1, 4), (1, 3), (1, 2), (2, 3), (1, 1), (3, 2), (2, 1), (3, 1), (4, 1), (8, 1), (11, 1),
            (16, 1), (32, 1)]
SHAPES = ['kite', 'kite', 'tri', 'wedge', 'cutsq', 'L', 'star4', 'slab', 'cut', 'cut']


def apex_deg(p, q):
    return round(2 * math.degrees(math.atan2(p, q)), 1)


def H():
    from . import c20
    return c20


# ---------------------------------------------------------------- cross-sections: conforming unions of convex quadrilaterals

def poly_patches(V):
    """convex polygon V (counter-clockwise, integer) -> one quadrilateral per vertex (vertex, next edge midpoint, centre,
    previous edge midpoint); coordinates scaled by 2 len(V) so that midpoints and the vertex mean are integers"""
    n = len(V)
    W = [(x * 2 * n, y * 2 * n) for x, y in V]
    G = (sum(x for x, _ in W) // n, sum(y for _, y in W) // n)

    def mid(p, q):
        return ((p[0] + q[0]) // 2, (p[1] + q[1]) // 2)
    return [(W[i], mid(W[i], W[(i + 1) % n]), G, mid(W[i - 1], W[i])) for i in range(n)]


def convex_ccw(q):
    return all((q[(i + 1) % 4][0] - q[i][0]) * (q[(i + 2) % 4][1] - q[(i + 1) % 4][1])
               - (q[(i + 1) % 4][1] - q[i][1]) * (q[(i + 2) % 4][0] - q[(i + 1) % 4][0]) > 0 for i in range(4))


def cross_section(rnd, shape):
    """-> (list of convex counter-clockwise quadrilaterals with integer corners, label)"""
    if shape == 'kite':
        p1, q1 = rnd.choice(HALF_TAN)
        p2, q2 = rnd.choice([(1, 2), (1, 1), (3, 2), (2, 1), (4, 1)])
        a, b, c = q1 * p2, p1 * p2, q1 * p2 + p1 * q2
        V = [(0, 0), (a, -b), (c, 0), (a, b)]
        lab = f'kite:apex={apex_deg(p1, q1)}:far={apex_deg(p2, q2)}'
        return ([tuple(V)] if rnd.random() < .6 else poly_patches(V)), lab
    if shape == 'tri':
        p, q = rnd.choice(HALF_TAN)
        return poly_patches([(0, 0), (q, -p), (q, p)]), f'tri:apex={apex_deg(p, q)}'
    if shape == 'wedge':
        p, q = rnd.choice(HALF_TAN[:10])
        return poly_patches([(0, 0), (q, 0), (q, p)]), f'wedge:angle={round(math.degrees(math.atan2(p, q)), 1)}'
    if shape == 'cutsq':
        s = rnd.randint(3, 8)
        c1, c2 = rnd.randint(1, s - 1), rnd.randint(1, s - 1)
        return poly_patches([(0, 0), (s, 0), (s, s - c2), (s - c1, s), (0, s)]), f'cutsq:{s}:{c1}:{c2}'
    if shape == 'L':
        xs = [0, rnd.randint(1, 4), 0]
        ys = [0, rnd.randint(1, 4), 0]
        xs[2], ys[2] = xs[1] + rnd.randint(1, 4), ys[1] + rnd.randint(1, 4)
        cells = rnd.choice([[(0, 0), (1, 0), (0, 1)], [(0, 0), (1, 0), (1, 1)], [(0, 0), (0, 1), (1, 1)], [(1, 0), (0, 1), (1, 1)]])
        return [((xs[i], ys[j]), (xs[i + 1], ys[j]), (xs[i + 1], ys[j + 1]), (xs[i], ys[j + 1])) for i, j in cells], 'L'
    if shape == 'star4':
        r = rnd.randint(1, 2)
        Rx, Ry = (r * rnd.choice([3, 4, 6, 9, 12]) for _ in range(2))
        O, I = (0, 0), [(r, -r), (r, r), (-r, r), (-r, -r)]
        out = [(Rx, 0), (0, Ry), (-Rx, 0), (0, -Ry)]
        lab = f'star4:tips={apex_deg(r, Rx - r)},{apex_deg(r, Ry - r)}'
        return [(O, I[k], out[k], I[(k + 1) % 4]) for k in range(4)], lab
    if shape == 'slab':
        w, h = rnd.randint(4, 16), rnd.randint(4, 16)
        s = h * rnd.choice([0, 1, 2, 4, -1, -3])
        return [((0, 0), (w, 0), (w + s, h), (s, h))], f'slab:corner={round(math.degrees(math.atan2(h, s)), 1) if s else 90.0}'
    raise ValueError(shape)


def refine(quads, n):
    """every quadrilateral cut into n x n by the bilinear map (coordinates scaled by n^2: no division)"""
    out = []
    for (p00, p10, p11, p01) in quads:
        def B(i, j):
            return tuple((n - i) * (n - j) * p00[k] + i * (n - j) * p10[k] + i * j * p11[k] + (n - i) * j * p01[k] for k in range(2))
        out += [(B(i, j), B(i + 1, j), B(i + 1, j + 1), B(i, j + 1)) for i in range(n) for j in range(n)]
    return out


AFFINE = [
    ('id', [[1, 0, 0], [0, 1, 0], [0, 0, 1]]),
    ('rot-z', [[3, -4, 0], [4, 3, 0], [0, 0, 5]]),                # scaled rotations: all angles kept
    ('rot-x', [[5, 0, 0], [0, 3, -4], [0, 4, 3]]),
    ('rot-zx', [[15, -20, 0], [12, 9, -20], [16, 12, 15]]),
    ('shear-xy', [[1, 1, 0], [0, 1, 0], [0, 0, 1]]),               # in-plane shear: the cross-section's angles change
    ('shear-xy2', [[1, -2, 0], [0, 1, 0], [0, 0, 1]]),
    ('oblique', [[1, 0, 1], [0, 1, 0], [0, 0, 1]]),                # oblique extrusion: caps meet the sides at acute / obtuse angles
    ('oblique2', [[1, 0, -1], [0, 1, 2], [0, 0, 1]]),
    ('swap', [[0, 0, 1], [1, 0, 0], [0, 1, 0]]),
]


def random_affine(rnd):
    if rnd.random() < .75:
        return rnd.choice(AFFINE)
    while True:
        A = [[rnd.randint(-2, 2) for _ in range(3)] for _ in range(3)]
        if MG.det3(*A) > 0:
            return 'random', A


def hex_to_tets(c, pos):
    """pulling triangulation of a convex hexahedron from its smallest node id; the diagonal of every quadrilateral face
    starts at the face's smallest node id, so neighbouring hexahedra agree on their common face"""
    v0 = min(c)
    tets = []
    for f in MG.FACES['hex']:
        fn = [c[i] for i in f]
        if v0 in fn:
            continue
        k = fn.index(min(fn))
        fn = fn[k:] + fn[:k]
        tets += [[v0, fn[0], fn[1], fn[2]], [v0, fn[0], fn[2], fn[3]]]
    for t in tets:
        if MG.signed('tet', [pos[n] for n in t]) < 0:
            t[1], t[2] = t[2], t[1]
    assert sum(MG.signed('tet', [pos[n] for n in t]) for t in tets) == MG.signed('hex', [pos[n] for n in c])
    return tets


def assert_conforming(kind, elems, pos):
    """every element positive; every face shared by at most two elements, with opposite orientation"""
    seen = {}
    for c in elems:
        assert MG.signed(kind, [pos[n] for n in c]) > 0
        for f in MG.FACES[kind]:
            fn = [c[i] for i in f]
            k = fn.index(min(fn))
            fn = tuple(fn[k:] + fn[:k])
            seen.setdefault(frozenset(fn), []).append(fn)
    for fs in seen.values():
        assert len(fs) <= 2
        if len(fs) == 2:
            assert fs[0] == (fs[1][0],) + fs[1][:0:-1], 'faces of neighbouring elements do not match'
    return seen


def finish(rnd, kind, pts, cells, label, max_cells):
    """pts: list of integer 3-D points, cells: hexahedra (kind hex / tet-from-hex) or tetrahedra over point indices"""
    if len(cells) > max_cells:
        return None
    name, A = random_affine(rnd)
    P = [tuple(F(sum(A[r][c] * q[c] for c in range(3))) for r in range(3)) for q in pts]
    ids = list(range(1, len(P) + 1))
    rnd.shuffle(ids)
    pos = {ids[k]: P[k] for k in range(len(P))}
    ctype = 'hex' if len(cells[0]) == 8 else 'tet'
    elems = []
    for c in cells:
        c = [ids[v] for v in c]
        if MG.signed(ctype, [pos[n] for n in c]) < 0:
            c = [c[i] for i in ([0, 3, 2, 1, 4, 7, 6, 5] if ctype == 'hex' else [0, 2, 1, 3])]
        elems.append(c)
    if kind == 'tet' and ctype == 'hex':
        elems = [t for c in elems for t in hex_to_tets(c, pos)]
    faces = assert_conforming(kind, elems, pos)
    keys, order = MG.order_ids(rnd, sorted(pos), {i: i for i in pos}, rnd.choice(['asc', 'shuf', 'shuf', 'desc', 'midshuf', 'swap2']))
    eids = list(range(1, len(elems) + 1))
    rnd.shuffle(eids)
    m = {'kind': kind, 'order': order, 'id_style': 'dense', 'nodes': [(i, pos[i]) for i in keys],
         'blocks': {kind: list(zip(eids, elems))}, 'shape': label + ':' + name}
    m['cosines'] = body_cosines([fs[0] for fs in faces.values() if len(fs) == 1], pos)
    return m


def prism_body(rnd, shape, kind, max_cells):
    quads, label = cross_section(rnd, shape)
    assert all(convex_ccw(q) for q in quads), (shape, quads)
    budget = max_cells if kind == 'hex' else max_cells // 6
    n = rnd.choice([n for n in (1, 2, 3) if len(quads) * n * n <= budget] or [1])
    quads = refine(quads, n)
    nz = rnd.choice([k for k in (1, 2, 3) if len(quads) * k <= budget] or [1])
    span = max(max(abs(v) for p in q for v in p) for q in quads)
    unit = 1 if shape == 'slab' else rnd.choice([1, max(1, span // 8), max(1, span // 2), span])
    zs = [0]
    for _ in range(nz):
        zs.append(zs[-1] + unit * rnd.choice([1, 1, 2, 3]))
    p2 = sorted({p for q in quads for p in q})
    at = {(p, k): len(p2) * k + i for k in range(nz + 1) for i, p in enumerate(p2)}
    pts = [(p[0], p[1], zs[k]) for k in range(nz + 1) for p in p2]
    cells = [[at[(q[i], k)] for i in range(4)] + [at[(q[i], k + 1)] for i in range(4)] for k in range(nz) for q in quads]
    return finish(rnd, kind, pts, cells, f'{label}:n={n}:layers={nz}', max_cells)


CUT_PLANES = [((1, -1, 0), 'x-y'), ((-1, 1, 0), 'y-x'), ((0, 1, -1), 'y-z'), ((0, -1, 1), 'z-y'), ((1, 0, -1), 'x-z'), ((-1, 0, 1), 'z-x')]


def cut_body(rnd, max_cells):
    """Freudenthal tet brick (the same Kuhn split in every cube) cut by one to three half-spaces x_i - x_j >= k: the planes
    x_i - x_j = k are unions of tet faces, the kept part is convex.  Anisotropic integer cell sizes turn the 45 / 60 degree
    angles of the index lattice into knife edges (atan(1/8) = 7 degrees) and blunt edges."""
    for _ in range(50):
        nx, ny, nz = (rnd.randint(1, 3) for _ in range(3))
        if 6 * nx * ny * nz > max_cells * 2:
            continue
        planes = [(n, lab, rnd.randint(-1, 1)) for n, lab in rnd.sample(CUT_PLANES, rnd.choice([1, 1, 2, 2, 3]))]

        def idx(x, y, z):
            return x + (nx + 1) * (y + (ny + 1) * z)
        tets = []
        for z in range(nz):
            for y in range(ny):
                for x in range(nx):
                    c = [(x, y, z), (x + 1, y, z), (x + 1, y + 1, z), (x, y + 1, z), (x, y, z + 1), (x + 1, y, z + 1), (x + 1, y + 1, z + 1),
                         (x, y + 1, z + 1)]
                    for t in MG.KUHN:
                        q = [c[i] for i in t]
                        side = [[sum(a * b for a, b in zip(n, v)) - k for v in q] for n, _, k in planes]
                        assert all(min(s) >= 0 or max(s) <= 0 for s in side)         # no tet straddles a cutting plane
                        if all(min(s) >= 0 for s in side):
                            tets.append([idx(*v) for v in q])
        if not 2 <= len(tets) <= max_cells or len(tets) == 6 * nx * ny * nz:
            continue
        # face-connected?
        by_face = {}
        for e, t in enumerate(tets):
            for f in MG.FACES['tet']:
                by_face.setdefault(frozenset(t[i] for i in f), []).append(e)
        seen, todo = {0}, [0]
        while todo:
            e = todo.pop()
            for f in MG.FACES['tet']:
                for o in by_face[frozenset(tets[e][i] for i in f)]:
                    if o not in seen:
                        seen.add(o)
                        todo.append(o)
        if len(seen) != len(tets):
            continue
        size = [rnd.choice([1, 1, 2, 3, 4, 8]) for _ in range(3)]
        used = sorted({v for t in tets for v in t})
        new = {v: i for i, v in enumerate(used)}
        coords = {idx(x, y, z): (x * size[0], y * size[1], z * size[2]) for z in range(nz + 1) for y in range(ny + 1) for x in range(nx + 1)}
        lab = 'cut:' + '&'.join(f'{p}>={k}' for _, p, k in planes) + f':{nx}x{ny}x{nz}:size={size[0]},{size[1]},{size[2]}'
        return finish(rnd, 'tet', [coords[v] for v in used], [[new[v] for v in t] for t in tets], lab, max_cells)
    return None


def body_cosines(bfaces, pos):
    """cosines (floats, distinct) of the outward normals of adjacent boundary faces lying in different planes"""
    h = H()
    normals = [h.face_normal(list(f), pos) for f in bfaces]
    by_edge = {}
    for k, f in enumerate(bfaces):
        for i in range(len(f)):
            by_edge[(f[i - 1], f[i])] = k
    out = set()
    for (a, b), k in by_edge.items():
        j = by_edge.get((b, a))
        if j is None or j <= k:
            continue
        x, y = normals[k], normals[j]
        if not any((x[1] * y[2] - x[2] * y[1], x[2] * y[0] - x[0] * y[2], x[0] * y[1] - x[1] * y[0])):
            continue
        out.add(round(float(sum(u * v for u, v in zip(x, y))) / math.sqrt(float(sum(v * v for v in x) * sum(v * v for v in y))), 9))
    return sorted(out)


COS_SWEEP = [1 - 1e-9, 0.999, 0.99, 0.95, 0.9, 0.7, 0.5, 0.2, 0.0, -0.2, -0.5, -0.9, -0.97, -0.999, -1.0]
COS_WEIGHTS = [2, 3, 4, 4, 5, 4, 4, 3, 2, 1, 1, 1, 1, 1, 1]


def sharp_case(rnd, i, max_cells=150):
    """one body + parameters.  cos_thresh: the general sweep (positive and negative values) or a value just above / below
    the cosine c of one of the body's own boundary edges, or just above / below -c (a comparison that loses the sign of the
    cosine differs from the documented one exactly for thresholds between c and |c| at an edge with c < 0)"""
    m = None
    while m is None:
        shape = SHAPES[i % len(SHAPES)] if rnd.random() < .8 else rnd.choice(SHAPES)
        kind = 'tet' if shape == 'cut' else ('hex' if (i // len(SHAPES)) % 2 == 0 else 'tet') if rnd.random() < .8 else rnd.choice(['hex', 'tet'])
        m = cut_body(rnd, max_cells) if shape == 'cut' else prism_body(rnd, shape, kind, max_cells)
        if m is not None and sum(len(b) for b in m['blocks'].values()) < 3:
            m = None
    n = sum(len(b) for b in m['blocks'].values())
    cs = m['cosines']
    how = 'sweep'
    T = rnd.choices(COS_SWEEP, COS_WEIGHTS)[0]
    if cs and i % 2 == 0:
        c = rnd.choice(cs)
        if c < 0 and rnd.random() < .5:
            c, how = -c, 'at-minus-body-cosine'
        else:
            how = 'at-body-cosine'
        d = rnd.choice([1e-6, 1e-3, 2e-2])
        up = rnd.random() < .5
        T = min(1.0, max(-1.0, c + d if up else c - d))
        how += ':above' if up else ':below'
    params = {'elem_num': rnd.choice([1, 1, 2, 3, 4, 8, max(1, n // 2), n]), 'cos_thresh': T,
              'dist_thresh': 0.0, 'knn': rnd.choice([1, 2, 3, 5])}
    m['thresh_how'] = how
    return m, params


def thin_layer_case(rnd, i):
    """hex / tet brick with graded layers: one or two layers along one axis are thin (1/4 or 1/8 of the unit cell) and
    dist_thresh lies between the thin and the unit spacing, so that compress() really merges the two node planes of a thin
    layer; knn in {2, 3, 5}: both original nodes of a merged pair then stand in one neighbour list, represented by the same
    compressed node"""
    h = H()
    kind = 'hex' if i % 2 == 0 else 'tet'
    n = [rnd.randint(1, 2) for _ in range(3)]
    ax = rnd.randrange(3)
    n[ax] = rnd.randint(2, 4) if kind == 'hex' else rnd.randint(2, 3)
    m = h.brick_mesh(kind, *n)
    thin = F(1, rnd.choice([4, 8]))
    which = set(rnd.sample(range(n[ax]), rnd.choice([1, 1, 2]) if n[ax] > 2 else 1))
    grid = [F(0)]
    for k in range(n[ax]):
        grid.append(grid[-1] + (thin if k in which else 1))
    scale = [F(rnd.choice([1, 1, 2])), F(rnd.choice([1, 1, 2])), F(rnd.choice([1, 1, 2]))]
    scale[ax] = F(1)

    def mp(p):
        q = [p[k] * scale[k] for k in range(3)]
        q[ax] = grid[int(p[ax])]
        return tuple(q)
    m['nodes'] = [(i_, mp(p)) for i_, p in m['nodes']]
    pos = dict(m['nodes'])
    for e, c in m['blocks'][kind]:
        if kind == 'tet' and MG.signed('tet', [pos[v] for v in c]) < 0:
            c[1], c[2] = c[2], c[1]
        assert MG.signed(kind, [pos[v] for v in c]) > 0
    m = h.reorder_nodes(rnd, m, rnd.choice(['asc', 'shuf', 'desc', 'midshuf']))
    m['shape'] = f'thin-layer:axis={ax}:thin={thin}:layers={sorted(which)}of{n[ax]}'
    nc = len(m['blocks'][kind])
    # the short edges must survive into the compressed cells (large cells lose them with the coplanar faces): mostly
    # target counts that keep the cells small
    params = {'elem_num': rnd.choice([1000, 1000, nc, max(2, nc // 2), max(2, nc // 2), 4, 2]), 'cos_thresh': rnd.choice([0.999, 0.95, 0.9]),
              'dist_thresh': float(rnd.choice([F(1, 2), F(3, 8), F(3, 4)])), 'knn': [2, 3, 5][i % 3]}
    return m, params


# ---------------------------------------------------------------- exact account of the merges of one run

def upstream_normal(f, pos):
    """femio's `calc_normal` as it was before the fix commit daf186d (findings/C20-nonconvex-normal.md), exact:
    sum over i >= 2 of (P1 - P0) x (Pi - P0) - the sign is wrong (or the vector vanishes) for non-convex planar faces.
    The repaired `calc_normal` is the fan area vector, `c20.face_normal`."""
    P = [pos[v] for v in f]
    u = MG.sub(P[1], P[0])
    w = [sum(P[i][k] - P[0][k] for i in range(2, len(P))) for k in range(3)]
    return [u[1] * w[2] - u[2] * w[1], u[2] * w[0] - u[0] * w[2], u[0] * w[1] - u[1] * w[0]]


def cos_ge(x, y, T):
    """exact: x.y / (|x| |y|) >= T  (False when a normal vanishes: the code's cosine is then nan and its test false)"""
    dot = sum(a * b for a, b in zip(x, y))
    sq = sum(a * a for a in x) * sum(b * b for b in y)
    if sq == 0:
        return False
    if T <= 0:
        return dot >= 0 or dot * dot <= T * T * sq
    return dot >= 0 and dot * dot >= T * T * sq


def cos_float(x, y):
    sq = sum(a * a for a in x) * sum(b * b for b in y)
    return float('nan') if sq == 0 else float(sum(a * b for a, b in zip(x, y))) / math.sqrt(float(sq))


TOL = 1e-10     # rounding allowance of the code's own float test (unit normals, dot product), as in admits_angle_merge


def classify_pair(f1, f2, pos, cos_thresh, ctx=None):
    """the two faces a stage of remove_edges decided to merge -> (class, exact cosine as float).  With a driver the decision
    is tied to the Lean model (`Femio.C20.admits`, theorem C20_admit_iff_cos): fan normals and both admission tests."""
    h = H()
    T = F(cos_thresh) - F(TOL)
    x, y = h.face_normal(f1, pos), h.face_normal(f2, pos)
    if ctx is not None and ctx.driver is not None:
        def enc(f):
            return C.enc_list([pos[v] for v in f], lambda p: ' '.join(C.enc_rat(c) for c in p))
        t = h.ask(ctx, f'c20.admit {C.enc_rat(T)} {enc(f1)} {enc(f2)}')
        m_fixed, m_up, _ = t.nat(), t.nat(), t.nat()
        mx, my = [t.rat() for _ in range(3)], [t.rat() for _ in range(3)]
        mine = (list(x), list(y), cos_ge(x, y, T), cos_ge(upstream_normal(f1, pos), upstream_normal(f2, pos), T))
        if mine != (mx, my, bool(m_fixed), bool(m_up)):
            ctx.disagree('admission test (fan normals / cos >= cos_thresh) differs from the model', {'kind': 'admit', 'T': str(T),
                         'f': [[str(c) for c in pos[v]] for v in f1], 'g': [[str(c) for c in pos[v]] for v in f2]},
                         [str(mine[2]), str(mine[3])], [m_fixed, m_up])
        ctx.count('admit-tie:compared-with-the-model')
    flat = not h.nonplanar(f1, pos) and not h.nonplanar(f2, pos)
    c = cos_float(x, y)
    cr = (x[1] * y[2] - x[2] * y[1], x[2] * y[0] - x[0] * y[2], x[0] * y[1] - x[1] * y[0])
    if flat and not any(cr) and sum(a * b for a, b in zip(x, y)) > 0:
        return 'coplanar', c
    if cos_ge(x, y, T):
        return 'admitted', c
    if flat and cos_ge(upstream_normal(f1, pos), upstream_normal(f2, pos), T):
        # diagnosis of the repaired defect: the formula of the tree before daf186d passes because it gets the sign of the
        # normal of a non-convex planar face wrong
        return 'NOT-admitted(sign of the normal of a non-convex planar face)', c
    return 'NOT-admitted', c


def merge_account(poly, params, real_final, ctx=None):
    """-> list of (stage, a, b, class, cos, f1, f2) for the applied edge removals of the run, or None when the staged replay
    cannot be used (the Python body of remove_edges raises / differs from the compiled one, or the replay does not end in
    the cells compress() produced)"""
    import femio.mesh_compressor as MC
    from . import c20_steps as S
    h = H()
    pos0 = [tuple(F(float(v)) for v in p) for p in poly.nodes.data]
    csr = poly.face_data_csr()
    raw = h.cells_of(csr)
    node_pos = poly.nodes.data.copy()
    elem_conv = np.arange(len(raw), dtype=np.int32)
    node_conv = np.arange(len(node_pos), dtype=np.int32)
    K = max(len(csr[0] - 1) // params['elem_num'], 1)
    csr = h.quiet(MC.merge_elements, csr, node_pos, elem_conv, K)
    acc = []
    for stage in range(10):
        before_size = len(csr[1])
        init = [h.parse_flat(c) for c in h.cells_of(csr)]
        ec1, ec2 = elem_conv.copy(), elem_conv.copy()
        out_c = h.quiet(MC.remove_edges, (csr[0].copy(), csr[1].copy()), node_pos, ec1, params['cos_thresh'])
        with S.EdgeTrace() as tr:
            try:
                out_p = h.quiet(MC.remove_edges.py_func, S.csr64(csr), node_pos, ec2, params['cos_thresh'])
            except Exception:  # noqa
                return None
        if h.cells_of(out_p) != h.cells_of(out_c):
            return None
        where = {}
        for p, c in enumerate(init):
            for k, f in enumerate(c):
                for i in range(len(f)):
                    where.setdefault((f[i - 1], f[i]), []).append((p, k))
        for (a, b), calls in S.group_calls(tr.calls):
            if not all(c[3] for c in calls):
                continue
            for p, k in where.get((a, b), []):
                j = next((kk for pp, kk in where.get((b, a), []) if pp == p), None)
                if j is None or j == k:
                    continue
                cls, c = classify_pair(init[p][k], init[p][j], pos0, params['cos_thresh'], ctx)
                acc.append((stage, a, b, cls, c, init[p][k], init[p][j]))
        elem_conv = ec1
        csr = out_c
        try:
            csr = h.quiet(MC.remove_vertices_2, (csr[0].copy(), csr[1].copy()), node_pos, elem_conv)
        except AssertionError:
            return None
        csr, node_pos = h.quiet(MC.merge_vertices, (csr[0].copy(), csr[1].copy()), node_pos, elem_conv, node_conv, params['dist_thresh'])
        if before_size == len(csr[1]):
            break
    final = [h.parse_flat(c) for c in h.cells_of(csr)]
    if [S.canon_cell(c) for c in final] != [S.canon_cell(c) for c in real_final]:
        return None
    return acc
