"""C07 - write() never changes an existing file unless overwrite=True (DESIGN.md section 4, C07).

Tie D: for every format x spelling x subset of pre-existing candidate files the real
`FEMData.write` is run in a fresh directory; (raised?, state of every watched path) is compared with
`Femio.C07.observe` of the model for each `Cfg`; exactly one `Cfg` must reproduce all outcomes, and
the property theorems are about `Cfg.fixed`.  Oracle: byte-for-byte snapshot comparison.
"""
import contextlib
import io
import itertools
import os
import shutil
from pathlib import Path

import numpy as np

from . import common as C
from . import stubs

PROP = 'C07'
LEAN_MODULES = ['Femio.Props.C07']
THEOREMS = ['C07_no_clobber', 'C07_only_new_files', 'C07_spelling_independent', 'C07_final_name_checked',
            'exec_preserves', 'C07_counterexample_upstream', 'C07_counterexample_vtp_backup']
PARTIAL = []
RULE = ('exhaustive enumeration: format (fistr, fistr msh-only, ucd, obj, stl, vtu, vtp, vtk) x spelling of the target '
        '(bare stem, stem+ext, stem ending in the ext letters, other ext, existing sub-directory, nested not-yet-existing '
        'directory) x every subset of the files the writer may touch (name as typed, final name, .msh, .cnt, '
        'hecmw_ctrl.dat, <final>.bak) x overwrite in {False, True}; a case is non-trivial when at least one candidate '
        'file pre-exists or the call creates a file; distinct = distinct (format, spelling, subset, overwrite). Oracle-only streams: rich '
        'object, default target name, pre-existing files with realistic content, exotic spellings, and KINDS of pre-existing file '
        '(empty = the mkstemp / touch placeholder, one newline, binary, a symbolic link to a file elsewhere whose target is part of '
        'the byte-for-byte snapshot)')
ASSUMPTIONS = [
    'stl / tvtk are not installed: their file encoders are replaced by stubs that create the requested file '
    '(femio\'s own naming / pre-check / post-processing code runs unchanged)',
    'mkdir of missing parent directories creates no regular file and is not modelled',
    'a path that exists as a directory is outside the enumeration',
]
TRUSTED = ['C07: Path.parent is computed by the harness and passed to the model as the ctrl path']

EXT = {'ucd': 'inp', 'obj': 'obj', 'stl': 'stl', 'vtu': 'vtu', 'vtp': 'vtp'}
FORMATS = [('fistr', False), ('fistr', True), ('ucd', False), ('obj', False), ('stl', False),
           ('vtu', False), ('vtp', False), ('vtk', False)]


def make_fem():
    import femio
    with contextlib.redirect_stdout(io.StringIO()):
        fd = femio.generate_brick('tet', 1, 1, 1)
        fd.nodal_data.update_data(fd.nodes.ids, {'T': np.arange(len(fd.nodes.ids), dtype=float)[:, None]})
        fd.settings['solution_type'] = 'STATIC'
    return fd


def make_rich():
    """a second, richer object for the oracle-only stream: mixed hex + tet + prism mesh with non-default ids, nodal and
    elemental variables of several widths, an element group and a material (so that every data / group branch of the
    writers runs)"""
    import femio
    from femio import FEMAttribute, FEMElementalAttribute
    with contextlib.redirect_stdout(io.StringIO()):
        nodes = FEMAttribute('NODE', ids=np.array([11, 3, 7, 19, 23, 2, 31, 5, 41, 43]),
                             data=np.array([[0, 0, 0], [1, 0, 0], [1, 1, 0], [0, 1, 0], [0, 0, 1], [1, 0, 1], [1, 1, 1],
                                            [0, 1, 1], [2, 0, 0], [2, 1, 0]], dtype=float))
        elements = FEMElementalAttribute('ELEMENT', {
            'hex': FEMAttribute('hex', ids=np.array([9]), data=np.array([[11, 3, 7, 19, 23, 2, 31, 5]])),
            'tet': FEMAttribute('tet', ids=np.array([4]), data=np.array([[3, 41, 43, 2]])),
            'prism': FEMAttribute('prism', ids=np.array([6]), data=np.array([[3, 43, 7, 2, 41, 31]]))})
        fd = femio.FEMData(nodes=nodes, elements=elements)
        n = len(nodes.ids)
        fd.nodal_data.update_data(nodes.ids, {'T': np.arange(n, dtype=float)[:, None],
                                              'U': np.arange(3 * n, dtype=float).reshape(n, 3)})
        fd.elemental_data.update_data(elements.ids, {'E': np.array([[1.5], [2.5], [3.5]]),
                                                     'S': np.arange(18, dtype=float).reshape(3, 6)})
        fd.settings['solution_type'] = 'STATIC'
        fd.element_groups = {'G': np.array([9, 4])}
    return fd


def spellings(fmt):
    e = EXT.get(fmt, 'dat')
    return [('bare-stem', 'mesh', []), ('stem+ext', f'mesh.{e}', []), ('ends-in-ext-letters', f'mesh{e}', []),
            ('other-ext', 'mesh.x', []), ('existing-subdir', 'sub/mesh', ['sub']), ('nested-new-dir', 'a/b/mesh', None)]


def final_name(fmt, name):
    if fmt in EXT:
        return name if name.endswith(EXT[fmt]) else name + '.' + EXT[fmt]
    return name


def candidates(fmt, name):
    parent = str(Path(name).parent)
    ctrl = 'hecmw_ctrl.dat' if parent == '.' else parent + '/hecmw_ctrl.dat'
    if fmt == 'fistr':
        c = [name, name + '.msh', name + '.cnt', ctrl]
    else:
        f = final_name(fmt, name)
        c = [name, f, f + '.bak']
    out = []
    for p in c:
        if p not in out:
            out.append(p)
    return out, ctrl


_AUDIT = {'on': False, 'paths': []}


def _audit(event, args):
    if not _AUDIT['on']:
        return
    try:
        if event == 'open':
            path, mode, flags = args[0], args[1], args[2] if len(args) > 2 else 0
            if isinstance(path, (str, bytes, os.PathLike)) and ((isinstance(mode, str) and any(c in mode for c in 'wax+'))
                                                                 or (isinstance(flags, int) and flags & (os.O_WRONLY | os.O_RDWR | os.O_CREAT | os.O_TRUNC))):
                _AUDIT['paths'].append(os.fspath(path))
        elif event in ('os.remove', 'os.truncate', 'os.rmdir'):
            _AUDIT['paths'].append(os.fspath(args[0]))
        elif event in ('os.rename', 'shutil.move', 'shutil.copyfile'):
            _AUDIT['paths'] += [os.fspath(args[0]), os.fspath(args[1])]
    except Exception:
        pass


def discover(ctx, fd, fmt, msh_only, name, mkdirs):
    """paths the writer touches (opens for writing, renames, removes) when writing into an EMPTY directory: side files
    such as <target>.tmp / .bak / ~ become candidates for the pre-existing subsets of the enumeration"""
    import sys
    if not _AUDIT.get('installed'):
        sys.addaudithook(_audit)
        _AUDIT['installed'] = True
    root = ctx.tmp / 'w'
    if root.exists():
        shutil.rmtree(root)
    root.mkdir()
    for d in (mkdirs or []):
        (root / d).mkdir(parents=True)
    cwd = os.getcwd()
    os.chdir(root)
    _AUDIT['paths'] = []
    _AUDIT['on'] = True
    try:
        with contextlib.redirect_stdout(io.StringIO()):
            fd.write(fmt, name, overwrite=False, **({'write_msh_only': True} if msh_only else {}))
    except Exception:
        pass
    finally:
        _AUDIT['on'] = False
        os.chdir(cwd)
    out = []
    rootr = str(root.resolve())
    for p in _AUDIT['paths']:
        if isinstance(p, bytes):
            p = p.decode()
        ap = os.path.realpath(os.path.join(rootr, p))
        if ap.startswith(rootr + os.sep):
            rel = os.path.relpath(ap, rootr)
            if rel not in out:
                out.append(rel)
    return out


def snapshot(root):
    snap = {}
    for dp, dn, fn in os.walk(root):
        for f in fn:
            p = Path(dp) / f
            snap[str(p.relative_to(root))] = p.read_bytes()
    return snap


def earlier_outputs(ctx, fd, fmt, msh_only, name, mkdirs, stem_prefix=''):
    """bytes of the files an EARLIER successful write of femio itself leaves at the candidate paths: written into an empty
    directory under `stem_prefix + stem` and mapped back to the paths of `name` (so that `stem_prefix='fine_'` gives the
    output of another model whose names contain the names of this one)"""
    root = ctx.tmp / 'e'
    if root.exists():
        shutil.rmtree(root)
    root.mkdir()
    for d in (mkdirs or []):
        (root / d).mkdir(parents=True)
    pth = Path(name)
    other = str(pth.parent / (stem_prefix + pth.name)) if stem_prefix else name
    cwd = os.getcwd()
    os.chdir(root)
    try:
        with contextlib.redirect_stdout(io.StringIO()):
            fd.write(fmt, other, overwrite=False, **({'write_msh_only': True} if msh_only else {}))
    except Exception:
        pass
    finally:
        os.chdir(cwd)
    out = {}
    for q, b in snapshot(root).items():
        qq = Path(q)
        back = str(qq.parent / qq.name[len(stem_prefix):]) if stem_prefix and qq.name.startswith(stem_prefix) else q
        out[back] = b
    shutil.rmtree(root)
    return out


def run_real(ctx, fd, fmt, msh_only, name, mkdirs, present, overwrite, prepare=None, content=None):
    root = ctx.tmp / 'w'
    if root.exists():
        shutil.rmtree(root)
    root.mkdir()
    for d in (mkdirs or []):
        (root / d).mkdir(parents=True)
    for p in present:
        (root / p).parent.mkdir(parents=True, exist_ok=True)
        c = content[p] if content and p in content else b'OLD:' + p.encode()
        if isinstance(c, tuple):     # ('symlink', <target relative to the work directory>, <bytes of the target>)
            tgt = root / c[1]
            tgt.parent.mkdir(parents=True, exist_ok=True)
            tgt.write_bytes(c[2])
            os.symlink(os.path.relpath(tgt, (root / p).parent), root / p)
        else:
            (root / p).write_bytes(c)
    if prepare is not None:
        fd = prepare(root)
    before = snapshot(root)
    err = None
    cwd = os.getcwd()
    os.chdir(root)
    try:
        with contextlib.redirect_stdout(io.StringIO()):
            kw = {'write_msh_only': True} if msh_only else {}
            fd.write(fmt, name, overwrite=overwrite, **kw)
    except ValueError as e:
        err = 'value_error'
        msg = str(e)
    except Exception as e:  # noqa
        err = 'other:' + type(e).__name__
        msg = str(e)
    finally:
        os.chdir(cwd)
    after = snapshot(root)
    return err, before, after


def state(before, after, p):
    if p not in after:
        return 0
    if p in before and before[p] == after[p]:
        return 1
    return 2


def kind_of(fmt, name, p):
    f = final_name(fmt, name)
    if p == f + '.bak':
        return 'bak'
    if p == f and p != name:
        return 'final-name'
    if p == name:
        return 'typed-name'
    for s in ('.msh', '.cnt'):
        if p == name + s:
            return s[1:]
    if p.endswith('hecmw_ctrl.dat'):
        return 'ctrl'
    return 'other'


def enumerate_cases(ctx):
    for fmt, msh_only in FORMATS:
        for sclass, name, mkdirs in spellings(fmt):
            cand, ctrl = candidates(fmt, name)
            # tie T: side files the real writer touches in an empty directory join the candidates
            for p in discover(ctx, ctx.extra['_fd'], fmt, msh_only, name, mkdirs if mkdirs is not None else []):
                if p not in cand and len(cand) < 6:
                    cand.append(p)
                    ctx.count('discovered-side-file:' + p.replace(name, '<name>'))
            if mkdirs is None:
                subsets = [()]
            else:
                subsets = [s for r in range(len(cand) + 1) for s in itertools.combinations(cand, r)]
            for present in subsets:
                for ow in (False, True):
                    if ow and ctx.quick and len(present) not in (0, len(cand)):
                        continue
                    yield fmt, msh_only, sclass, name, mkdirs, cand, ctrl, list(present), ow


def run(ctx):
    stubbed = stubs.install()
    ctx.extra['stubbed_modules'] = stubbed
    fd = make_fem()
    ctx.extra['_fd'] = fd
    cfgs = [(a, b) for a in (1, 0) for b in (0, 1)]
    mismatch = {c: [] for c in cfgs}
    results = []
    for fmt, msh_only, sclass, name, mkdirs, cand, ctrl, present, ow in enumerate_cases(ctx):
        err, before, after = run_real(ctx, fd, fmt, msh_only, name, mkdirs, present, ow)
        watch = sorted(set(cand) | set(after.keys()) | set(before.keys()))
        obs = [state(before, after, p) for p in watch]
        case = {'format': fmt, 'write_msh_only': msh_only, 'spelling': sclass, 'name': name,
                'pre_existing': present, 'overwrite': ow}
        ctx.case((fmt, msh_only, name, tuple(present), ow), sample={**case, 'raised': err, 'after': dict(zip(watch, obs))},
                 nontrivial=bool(present) or 2 in obs)
        ctx.count(f'fmt:{fmt}{"/msh-only" if msh_only else ""}')
        ctx.count(f'spelling:{sclass}')
        ctx.count('outcome:' + (err or 'ok'))
        if err and err.startswith('other:'):
            ctx.notes.append(f'unexpected exception {err} for {case}')
        # ---- oracle (the property itself)
        if not ow:
            for p, b in before.items():
                if after.get(p) != b:
                    ctx.fail(f'clobber:{fmt}:{kind_of(fmt, name, p)}',
                             f'write({fmt!r}, {name!r}, overwrite=False) changed the existing file {p!r}'
                             f' ({"deleted" if p not in after else "content replaced"}; raised: {err})',
                             case, {'path': p, 'raised': err, 'deleted': p not in after})
        results.append((case, fmt, name, ctrl, ow, msh_only, watch, present, err, obs))
    # ---- correspondence with the model, for each Cfg
    if ctx.driver is not None:
        for cfg in cfgs:
            lines = []
            for case, fmt, name, ctrl, ow, mo, watch, present, err, obs in results:
                lines.append(' '.join([
                    'c07.observe', str(cfg[0]), str(cfg[1]), fmt, C.esc(name), C.esc(ctrl), str(int(ow)), str(int(mo)),
                    C.enc_list(watch, C.esc), C.enc_list([int(p in present) for p in watch])]))
            replies = ctx.driver.ask_many(lines)
            for (case, fmt, name, ctrl, ow, mo, watch, present, err, obs), rep in zip(results, replies):
                t = C.Toks(rep)
                if t.tok() != 'ok':
                    raise RuntimeError('driver: ' + rep)
                raised = t.nat()
                mobs = t.lst(t.nat)
                impl = (1 if err == 'value_error' else 0, obs)
                if (raised, mobs) != impl:
                    mismatch[cfg].append((case, impl, (raised, mobs)))
        agree = [c for c in cfgs if not mismatch[c]]
        names = {(1, 0): 'fixed', (0, 1): 'upstream', (1, 1): 'checkFinalName only', (0, 0): 'no vtp backup only'}
        ctx.extra['cfg_detected'] = [names[c] for c in agree]
        ctx.extra['cfg_mismatches'] = {names[c]: len(mismatch[c]) for c in cfgs}
        if (1, 0) not in agree:
            # the tree does not implement the configuration the theorems are about
            best = min(cfgs, key=lambda c: len(mismatch[c])) if not agree else agree[0]
            for case, impl, model in mismatch[(1, 0)][:20]:
                ctx.disagree('outcome differs from Cfg.fixed' + (f' (tree behaves as Cfg {names[best]})' if agree else ''),
                             case, impl, model)
    oracle_only_stream(ctx)
    ctx.extra['exhaustive'] = not ctx.quick
    ctx.extra.pop('_fd', None)


def _oracle(ctx, sig_prefix, fmt, name, case, err, before, after):
    for p, b in before.items():
        if after.get(p) != b:
            ctx.fail(f'clobber:{fmt}:{sig_prefix}',
                     f'write({fmt!r}, {name!r}, overwrite=False) changed the existing file {p!r}'
                     f' ({"deleted" if p not in after else "content replaced"}; raised: {err})',
                     case, {'path': p, 'raised': err, 'deleted': p not in after})


FILE_KINDS = ['empty', 'newline', 'binary', 'symlink']


def file_kind_content(kind, p):
    if kind == 'empty':
        return b''
    if kind == 'newline':
        return b'\n'
    if kind == 'binary':
        return bytes(range(256)) * 3
    return ('symlink', 'elsewhere/' + p.replace('/', '__') + '.target', b'TARGET-OF-LINK:' + p.encode())


def oracle_only_stream(ctx):
    """inputs the model is not run on (the theorems do not depend on the object written; the correspondence above is
    made with one object): (a) a richer object - mixed mesh, nodal + elemental variables, groups - so that every data
    branch of the writers runs; (b) the default target name (file_name=None -> <input file>.out.<ext>) of an object that
    was read from a file.  Candidates = the paths the writer touches in an otherwise empty directory (audit hook); every
    subset of them pre-exists in turn; the oracle is the byte-for-byte snapshot comparison."""
    import femio
    rich = make_rich()
    for fmt, msh_only in FORMATS:
        for sclass, name, mkdirs in spellings(fmt)[:2]:
            cand, _ = candidates(fmt, name)
            try:
                for p in discover(ctx, rich, fmt, msh_only, name, mkdirs or []):
                    if p not in cand and len(cand) < 6:
                        cand.append(p)
            except Exception:
                pass
            subsets = [s for r in range(len(cand) + 1) for s in itertools.combinations(cand, r)]
            if ctx.quick:
                subsets = [s for s in subsets if len(s) in (1, len(cand))]
            for present in subsets:
                err, before, after = run_real(ctx, rich, fmt, msh_only, name, mkdirs, list(present), False)
                case = {'stream': 'rich-object', 'format': fmt, 'write_msh_only': msh_only, 'spelling': sclass, 'name': name,
                        'pre_existing': list(present), 'overwrite': False}
                ctx.case(('rich', fmt, msh_only, name, tuple(present)), sample={**case, 'raised': err}, nontrivial=True)
                ctx.count('oracle-only:rich-object:' + (err or 'ok'))
                _oracle(ctx, 'rich-object:' + kind_of(fmt, name, '') , fmt, name, case, err, before, after)
    # (a') pre-existing files with REALISTIC content: what an earlier write of femio left there, hand-edited afterwards
    #      (a line appended), or the output of another model whose file names contain these names (stem 'fine_' + stem)
    fd0 = make_fem()
    for fmt, msh_only in FORMATS:
        for sclass, name, mkdirs in spellings(fmt)[:2]:
            cand, _ = candidates(fmt, name)
            for mode, prefix in (('earlier-output-edited', ''), ('other-model-output', 'fine_')):
                try:
                    early = earlier_outputs(ctx, fd0, fmt, msh_only, name, mkdirs, prefix)
                except Exception:
                    ctx.count(f'oracle-only:{mode}:prepare-failed')
                    continue
                content = {q: b + (b'\n# edited by hand\n' if mode == 'earlier-output-edited' else b'') for q, b in early.items()}
                cand2 = [c for c in cand] + [q for q in content if q not in cand]
                subsets = [s for r in range(1, len(cand2) + 1) for s in itertools.combinations(cand2, r)]
                if ctx.quick:
                    subsets = [s for s in subsets if len(s) in (1, 2, len(cand2))]
                for present in subsets:
                    err, before, after = run_real(ctx, fd0, fmt, msh_only, name, mkdirs, list(present), False, content=content)
                    case = {'stream': mode, 'format': fmt, 'write_msh_only': msh_only, 'spelling': sclass, 'name': name,
                            'pre_existing': list(present), 'overwrite': False}
                    ctx.case((mode, fmt, msh_only, name, tuple(present)), sample={**case, 'raised': err}, nontrivial=True)
                    ctx.count(f'oracle-only:{mode}:' + (err or 'ok'))
                    _oracle(ctx, mode, fmt, name, case, err, before, after)
    # (a'') exotic spellings of the target (oracle only; the model is not run on them): a path that leaves a not-yet-existing
    #       directory again (`out/run1/../mesh`), glob meta-characters, blanks, non-ASCII, dots in directory names.  Candidates =
    #       the typed / final names at their RESOLVED location + whatever the writer touches in an otherwise empty directory.
    exotic = [('dotdot-through-missing-dir', 'out/run1/../mesh', ['out']), ('dotdot-deeper', 'runs/0001/../../latest/mesh', ['latest']),
              ('glob-brackets', 'model[1]', []), ('glob-brackets-in-dir', 'out/step[10]', ['out']), ('glob-star', 'me*sh', []),
              ('glob-question', 'mesh?', []), ('blank', 'my mesh', []), ('non-ascii', 'm\u00e9sh', []), ('dot-in-dir', 'a.b/mesh', ['a.b']),
              ('trailing-dot', 'mesh.', []), ('leading-dot', '.mesh', [])]
    for fmt, msh_only in FORMATS:
        for sclass, stem, mkdirs in exotic:
            for name in (stem, stem + '.' + EXT[fmt]) if fmt in EXT else (stem,):
                cand0, _ = candidates(fmt, name)
                cand = []
                for c in cand0:
                    c = os.path.normpath(c)
                    if c not in cand:
                        cand.append(c)
                try:
                    for q in discover(ctx, fd0, fmt, msh_only, name, mkdirs):
                        if q not in cand and len(cand) < 7:
                            cand.append(q)
                except Exception:
                    pass
                subsets = [(c,) for c in cand] + [tuple(cand)]
                for present in subsets:
                    try:
                        err, before, after = run_real(ctx, fd0, fmt, msh_only, name, mkdirs, list(present), False)
                    except OSError as e:       # the harness could not even create the pre-existing files (illegal name): skip
                        ctx.count(f'oracle-only:spelling:{sclass}:not-creatable:{type(e).__name__}')
                        continue
                    case = {'stream': 'exotic-spelling', 'format': fmt, 'write_msh_only': msh_only, 'spelling': sclass, 'name': name,
                            'mkdirs': mkdirs, 'pre_existing': list(present), 'overwrite': False}
                    ctx.case(('exotic', fmt, msh_only, name, tuple(present)), sample={**case, 'raised': err}, nontrivial=True)
                    ctx.count(f'oracle-only:spelling:{sclass}:' + (err or 'ok'))
                    _oracle(ctx, 'spelling:' + sclass, fmt, name, case, err, before, after)
    # (a''') KINDS of pre-existing file (round 6, seeded C07-11): a file "exists" whatever it holds - empty (the
    #        tempfile.mkstemp / touch placeholder pattern), one newline, binary garbage, or a symbolic link to a file that lives
    #        elsewhere (the snapshot covers the link target: writing through the link changes an existing file too)
    for fmt, msh_only in FORMATS:
        for sclass, name, mkdirs in spellings(fmt)[:2]:
            cand, _ = candidates(fmt, name)
            try:
                for q in discover(ctx, fd0, fmt, msh_only, name, mkdirs or []):
                    if q not in cand and len(cand) < 6:
                        cand.append(q)
            except Exception:
                pass
            for kind in FILE_KINDS:
                subsets = [(c,) for c in cand] + [tuple(cand)]
                for present in subsets:
                    content = {q: file_kind_content(kind, q) for q in present}
                    err, before, after = run_real(ctx, fd0, fmt, msh_only, name, mkdirs, list(present), False, content=content)
                    case = {'stream': 'file-kind', 'file_kind': kind, 'format': fmt, 'write_msh_only': msh_only, 'spelling': sclass,
                            'name': name, 'pre_existing': list(present), 'overwrite': False}
                    ctx.case(('file-kind', kind, fmt, msh_only, name, tuple(present)), sample={**case, 'raised': err}, nontrivial=True)
                    ctx.count(f'oracle-only:file-kind:{kind}:' + (err or 'ok'))
                    _oracle(ctx, 'file-kind:' + kind, fmt, name, case, err, before, after)
    # (b) default name
    def prepare(root):
        (root / 'in').mkdir(exist_ok=True)
        src = root / 'in' / 'mesh.inp'
        if not src.exists():
            with contextlib.redirect_stdout(io.StringIO()):
                make_fem().write('ucd', str(src))
        with contextlib.redirect_stdout(io.StringIO()):
            fd = femio.read_files('ucd', [str(src)])
            fd.settings['solution_type'] = 'STATIC'
        return fd
    for fmt, msh_only in FORMATS:
        ext = EXT.get(fmt)
        stem = 'in/mesh.inp.out.' + (ext or {'fistr': 'msh', 'vtk': 'vtk'}.get(fmt, 'dat'))
        cand = ['in/mesh.inp.out', stem, stem + '.bak', stem + '.msh', stem + '.cnt', 'in/hecmw_ctrl.dat']
        for present in [()] + [(c,) for c in cand] + [tuple(cand)]:
            try:
                err, before, after = run_real(ctx, None, fmt, msh_only, None, [], list(present), False, prepare=prepare)
            except Exception as e:      # the preparation itself (writing / reading the input) failed: not this property
                ctx.count('oracle-only:default-name:prepare-failed:' + type(e).__name__)
                continue
            case = {'stream': 'default-name', 'format': fmt, 'write_msh_only': msh_only, 'name': None,
                    'pre_existing': list(present), 'overwrite': False}
            ctx.case(('default-name', fmt, msh_only, tuple(present)), sample={**case, 'raised': err}, nontrivial=bool(present))
            ctx.count('oracle-only:default-name:' + (err or 'ok'))
            _oracle(ctx, 'default-name', fmt, 'None', case, err, before, after)


def replay(ctx, obj):
    stubs.install()
    case = obj['input']
    stream = case.get('stream')
    fd = make_rich() if stream == 'rich-object' else make_fem()
    if stream == 'default-name':
        return {'case': case, 'note': 'default-name stream: re-run the check to reproduce', 'fails': False}
    cand, ctrl = candidates(case['format'], case['name'])
    sp = {s[1]: s[2] for s in spellings(case['format'])}
    mk = case.get('mkdirs', sp.get(case['name'], []))
    content = None
    if stream in ('earlier-output-edited', 'other-model-output'):
        early = earlier_outputs(ctx, fd, case['format'], case['write_msh_only'], case['name'], mk,
                                '' if stream == 'earlier-output-edited' else 'fine_')
        content = {q: b + (b'\n# edited by hand\n' if stream == 'earlier-output-edited' else b'') for q, b in early.items()}
    if stream == 'file-kind':
        content = {q: file_kind_content(case['file_kind'], q) for q in case['pre_existing']}
    err, before, after = run_real(ctx, fd, case['format'], case['write_msh_only'], case['name'],
                                  mk, case['pre_existing'], case['overwrite'], content=content)
    changed = [p for p, b in before.items() if after.get(p) != b]
    return {'case': case, 'raised': err, 'changed_existing_files': changed, 'fails': bool(changed) and not case['overwrite']}
