"""C07 - write() never changes an existing file unless overwrite=True (DESIGN.md section 4, C07).

Tie D: for every format x spelling x subset of pre-existing candidate files the real
`FEMData.write` is run in a fresh directory; (raised?, state of every watched path) is compared with
`Femio.C07.observe` of the model for each `Cfg`; exactly one `Cfg` must reproduce all outcomes, and
the property theorems are about `Cfg.fixed`.  Oracle: byte-for-byte snapshot comparison.
"""
import contextlib
import io
import itertools
import os
import shutil
from pathlib import Path

import numpy as np

from . import common as C
from . import stubs

PROP = 'C07'
LEAN_MODULES = ['Femio.Props.C07']
THEOREMS = ['C07_no_clobber', 'C07_only_new_files', 'C07_spelling_independent', 'C07_final_name_checked',
            'exec_preserves', 'C07_counterexample_upstream', 'C07_counterexample_vtp_backup']
PARTIAL = []
RULE = ('exhaustive enumeration: format (fistr, fistr msh-only, ucd, obj, stl, vtu, vtp, vtk) x spelling of the target '
        '(bare stem, stem+ext, stem ending in the ext letters, other ext, existing sub-directory, nested not-yet-existing '
        'directory) x every subset of the files the writer may touch (name as typed, final name, .msh, .cnt, '
        'hecmw_ctrl.dat, <final>.bak) x overwrite in {False, True}; a case is non-trivial when at least one candidate '
        'file pre-exists or the call creates a file; distinct = distinct (format, spelling, subset, overwrite)')
ASSUMPTIONS = [
    'stl / tvtk are not installed: their file encoders are replaced by stubs that create the requested file '
    '(femio\'s own naming / pre-check / post-processing code runs unchanged)',
    'mkdir of missing parent directories creates no regular file and is not modelled',
    'a path that exists as a directory is outside the enumeration',
]
TRUSTED = ['C07: Path.parent is computed by the harness and passed to the model as the ctrl path']

EXT = {'ucd': 'inp', 'obj': 'obj', 'stl': 'stl', 'vtu': 'vtu', 'vtp': 'vtp'}
FORMATS = [('fistr', False), ('fistr', True), ('ucd', False), ('obj', False), ('stl', False),
           ('vtu', False), ('vtp', False), ('vtk', False)]


def make_fem():
    import femio
    with contextlib.redirect_stdout(io.StringIO()):
        fd = femio.generate_brick('tet', 1, 1, 1)
        fd.nodal_data.update_data(fd.nodes.ids, {'T': np.arange(len(fd.nodes.ids), dtype=float)[:, None]})
        fd.settings['solution_type'] = 'STATIC'
    return fd


def spellings(fmt):
    e = EXT.get(fmt, 'dat')
    return [('bare-stem', 'mesh', []), ('stem+ext', f'mesh.{e}', []), ('ends-in-ext-letters', f'mesh{e}', []),
            ('other-ext', 'mesh.x', []), ('existing-subdir', 'sub/mesh', ['sub']), ('nested-new-dir', 'a/b/mesh', None)]


def final_name(fmt, name):
    if fmt in EXT:
        return name if name.endswith(EXT[fmt]) else name + '.' + EXT[fmt]
    return name


def candidates(fmt, name):
    parent = str(Path(name).parent)
    ctrl = 'hecmw_ctrl.dat' if parent == '.' else parent + '/hecmw_ctrl.dat'
    if fmt == 'fistr':
        c = [name, name + '.msh', name + '.cnt', ctrl]
    else:
        f = final_name(fmt, name)
        c = [name, f, f + '.bak']
    out = []
    for p in c:
        if p not in out:
            out.append(p)
    return out, ctrl


_AUDIT = {'on': False, 'paths': []}


def _audit(event, args):
    if not _AUDIT['on']:
        return
    try:
        if event == 'open':
            path, mode, flags = args[0], args[1], args[2] if len(args) > 2 else 0
            if isinstance(path, (str, bytes, os.PathLike)) and ((isinstance(mode, str) and any(c in mode for c in 'wax+'))
                                                                 or (isinstance(flags, int) and flags & (os.O_WRONLY | os.O_RDWR | os.O_CREAT | os.O_TRUNC))):
                _AUDIT['paths'].append(os.fspath(path))
        elif event in ('os.remove', 'os.truncate', 'os.rmdir'):
            _AUDIT['paths'].append(os.fspath(args[0]))
        elif event in ('os.rename', 'shutil.move', 'shutil.copyfile'):
            _AUDIT['paths'] += [os.fspath(args[0]), os.fspath(args[1])]
    except Exception:
        pass


def discover(ctx, fd, fmt, msh_only, name, mkdirs):
    """paths the writer touches (opens for writing, renames, removes) when writing into an EMPTY directory: side files
    such as <target>.tmp / .bak / ~ become candidates for the pre-existing subsets of the enumeration"""
    import sys
    if not _AUDIT.get('installed'):
        sys.addaudithook(_audit)
        _AUDIT['installed'] = True
    root = ctx.tmp / 'w'
    if root.exists():
        shutil.rmtree(root)
    root.mkdir()
    for d in (mkdirs or []):
        (root / d).mkdir(parents=True)
    cwd = os.getcwd()
    os.chdir(root)
    _AUDIT['paths'] = []
    _AUDIT['on'] = True
    try:
        with contextlib.redirect_stdout(io.StringIO()):
            fd.write(fmt, name, overwrite=False, **({'write_msh_only': True} if msh_only else {}))
    except Exception:
        pass
    finally:
        _AUDIT['on'] = False
        os.chdir(cwd)
    out = []
    rootr = str(root.resolve())
    for p in _AUDIT['paths']:
        if isinstance(p, bytes):
            p = p.decode()
        ap = os.path.realpath(os.path.join(rootr, p))
        if ap.startswith(rootr + os.sep):
            rel = os.path.relpath(ap, rootr)
            if rel not in out:
                out.append(rel)
    return out


def snapshot(root):
    snap = {}
    for dp, dn, fn in os.walk(root):
        for f in fn:
            p = Path(dp) / f
            snap[str(p.relative_to(root))] = p.read_bytes()
    return snap


def run_real(ctx, fd, fmt, msh_only, name, mkdirs, present, overwrite):
    root = ctx.tmp / 'w'
    if root.exists():
        shutil.rmtree(root)
    root.mkdir()
    for d in (mkdirs or []):
        (root / d).mkdir(parents=True)
    for p in present:
        (root / p).parent.mkdir(parents=True, exist_ok=True)
        (root / p).write_bytes(b'OLD:' + p.encode())
    before = snapshot(root)
    err = None
    cwd = os.getcwd()
    os.chdir(root)
    try:
        with contextlib.redirect_stdout(io.StringIO()):
            kw = {'write_msh_only': True} if msh_only else {}
            fd.write(fmt, name, overwrite=overwrite, **kw)
    except ValueError as e:
        err = 'value_error'
        msg = str(e)
    except Exception as e:  # noqa
        err = 'other:' + type(e).__name__
        msg = str(e)
    finally:
        os.chdir(cwd)
    after = snapshot(root)
    return err, before, after


def state(before, after, p):
    if p not in after:
        return 0
    if p in before and before[p] == after[p]:
        return 1
    return 2


def kind_of(fmt, name, p):
    f = final_name(fmt, name)
    if p == f + '.bak':
        return 'bak'
    if p == f and p != name:
        return 'final-name'
    if p == name:
        return 'typed-name'
    for s in ('.msh', '.cnt'):
        if p == name + s:
            return s[1:]
    if p.endswith('hecmw_ctrl.dat'):
        return 'ctrl'
    return 'other'


def enumerate_cases(ctx):
    for fmt, msh_only in FORMATS:
        for sclass, name, mkdirs in spellings(fmt):
            cand, ctrl = candidates(fmt, name)
            # tie T: side files the real writer touches in an empty directory join the candidates
            for p in discover(ctx, ctx.extra['_fd'], fmt, msh_only, name, mkdirs if mkdirs is not None else []):
                if p not in cand and len(cand) < 6:
                    cand.append(p)
                    ctx.count('discovered-side-file:' + p.replace(name, '<name>'))
            if mkdirs is None:
                subsets = [()]
            else:
                subsets = [s for r in range(len(cand) + 1) for s in itertools.combinations(cand, r)]
            for present in subsets:
                for ow in (False, True):
                    if ow and ctx.quick and len(present) not in (0, len(cand)):
                        continue
                    yield fmt, msh_only, sclass, name, mkdirs, cand, ctrl, list(present), ow


def run(ctx):
    stubbed = stubs.install()
    ctx.extra['stubbed_modules'] = stubbed
    fd = make_fem()
    ctx.extra['_fd'] = fd
    cfgs = [(a, b) for a in (1, 0) for b in (0, 1)]
    mismatch = {c: [] for c in cfgs}
    results = []
    for fmt, msh_only, sclass, name, mkdirs, cand, ctrl, present, ow in enumerate_cases(ctx):
        err, before, after = run_real(ctx, fd, fmt, msh_only, name, mkdirs, present, ow)
        watch = sorted(set(cand) | set(after.keys()) | set(before.keys()))
        obs = [state(before, after, p) for p in watch]
        case = {'format': fmt, 'write_msh_only': msh_only, 'spelling': sclass, 'name': name,
                'pre_existing': present, 'overwrite': ow}
        ctx.case((fmt, msh_only, name, tuple(present), ow), sample={**case, 'raised': err, 'after': dict(zip(watch, obs))},
                 nontrivial=bool(present) or 2 in obs)
        ctx.count(f'fmt:{fmt}{"/msh-only" if msh_only else ""}')
        ctx.count(f'spelling:{sclass}')
        ctx.count('outcome:' + (err or 'ok'))
        if err and err.startswith('other:'):
            ctx.notes.append(f'unexpected exception {err} for {case}')
        # ---- oracle (the property itself)
        if not ow:
            for p, b in before.items():
                if after.get(p) != b:
                    ctx.fail(f'clobber:{fmt}:{kind_of(fmt, name, p)}',
                             f'write({fmt!r}, {name!r}, overwrite=False) changed the existing file {p!r}'
                             f' ({"deleted" if p not in after else "content replaced"}; raised: {err})',
                             case, {'path': p, 'raised': err, 'deleted': p not in after})
        results.append((case, fmt, name, ctrl, ow, msh_only, watch, present, err, obs))
    # ---- correspondence with the model, for each Cfg
    if ctx.driver is not None:
        for cfg in cfgs:
            lines = []
            for case, fmt, name, ctrl, ow, mo, watch, present, err, obs in results:
                lines.append(' '.join([
                    'c07.observe', str(cfg[0]), str(cfg[1]), fmt, C.esc(name), C.esc(ctrl), str(int(ow)), str(int(mo)),
                    C.enc_list(watch, C.esc), C.enc_list([int(p in present) for p in watch])]))
            replies = ctx.driver.ask_many(lines)
            for (case, fmt, name, ctrl, ow, mo, watch, present, err, obs), rep in zip(results, replies):
                t = C.Toks(rep)
                if t.tok() != 'ok':
                    raise RuntimeError('driver: ' + rep)
                raised = t.nat()
                mobs = t.lst(t.nat)
                impl = (1 if err == 'value_error' else 0, obs)
                if (raised, mobs) != impl:
                    mismatch[cfg].append((case, impl, (raised, mobs)))
        agree = [c for c in cfgs if not mismatch[c]]
        names = {(1, 0): 'fixed', (0, 1): 'upstream', (1, 1): 'checkFinalName only', (0, 0): 'no vtp backup only'}
        ctx.extra['cfg_detected'] = [names[c] for c in agree]
        ctx.extra['cfg_mismatches'] = {names[c]: len(mismatch[c]) for c in cfgs}
        if (1, 0) not in agree:
            # the tree does not implement the configuration the theorems are about
            best = min(cfgs, key=lambda c: len(mismatch[c])) if not agree else agree[0]
            for case, impl, model in mismatch[(1, 0)][:20]:
                ctx.disagree('outcome differs from Cfg.fixed' + (f' (tree behaves as Cfg {names[best]})' if agree else ''),
                             case, impl, model)
    ctx.extra['exhaustive'] = not ctx.quick
    ctx.extra.pop('_fd', None)


def replay(ctx, obj):
    stubs.install()
    fd = make_fem()
    case = obj['input']
    cand, ctrl = candidates(case['format'], case['name'])
    sp = {s[1]: s[2] for s in spellings(case['format'])}
    err, before, after = run_real(ctx, fd, case['format'], case['write_msh_only'], case['name'],
                                  sp.get(case['name'], []), case['pre_existing'], case['overwrite'])
    changed = [p for p, b in before.items() if after.get(p) != b]
    return {'case': case, 'raised': err, 'changed_existing_files': changed, 'fails': bool(changed) and not case['overwrite']}
