"""C04 - AVS UCD write -> read is bit-exact for mesh, nodal and elemental data (DESIGN.md section 4, C04).

Tie D: random FEMData (arbitrary ids / storage order, any mix of first-order element types and tet2, any number of
nodal / elemental variables of arbitrary width, any float64 values) ->
  (a) the file written by the real `FEMData.write('ucd')` is compared line by line with the text the model writer
      `Femio.Ucd.write` produces from "what the writer looks at" (values enter the model as their printed numerals);
  (b) the real reader's result on that file is compared with the model reader `Femio.Ucd.read` run on the same text
      (ids, storage order, per-type blocks, variables, values by bit pattern).
Oracle: real write -> real read -> bitwise equality by id, same types / connectivity (tet2 -> corner tet), same
variables.  Variables whose own id order differs from the mesh's (DESIGN section 5, F9: fixed in the tree, the writer
binds rows to ids) are inside the oracle: stream `own-id-order` gives every variable a private row order (mesh order,
ascending, descending, reversed, rolled, shuffled), with two or more nodal and / or elemental variables carrying
DIFFERENT private orders, and demands the values read back under every id to be bit-identical to the variable's own
row for that id.  The correspondence (model writer Cfg.fixed = rows looked up by id per variable) runs on it as well.
"""
import math
import struct

import numpy as np

from . import common as C
from . import meshgen as G

PROP = 'C04'
LEAN_MODULES = ['Femio.Props.C04']
THEOREMS = ['C04_offsets', 'C04_roundtrip', 'C04_roundtrip_printed', 'C04_tet2_first_order', 'C04_nothing_else_changes',
            'C04_bound_to_same_ids', 'C04_type_table', 'C04_misaligned_counterexample',
            'C04_bound_to_same_ids_own_order', 'C04_own_order_counterexample_upstream', 'C04_lex_print_line',
            'C04_roundtrip_lines', 'C04_roundtrip_chars', 'C04_roundtrip_chars_printed', 'C04_own_order_chars']
PARTIAL = [
    'C04_roundtrip_printed / C04_roundtrip_chars_printed: parametric in (print, parse) with the hypotheses '
    'parse (print v) = v and valOKB (print v); that Python\'s shortest repr / float() satisfy the first is trusted and '
    'exercised by the special-value stream (bit patterns compared); the second is a Boolean function the driver '
    'evaluates on every printed value of every case (count "hypotheses ... hold")',
    'character level: lines are split at newlines with empty lines skipped (pd.read_csv(sep="@", header=None) inside '
    'StringSeries.read_file is modelled by that rule, its quoting / carriage-return handling is not modelled; '
    'names and numerals contain neither quotes nor carriage returns)',
]
RULE = ('random combinatorial mesh (1-3 element types out of line, spring, tri, quad, tet, tet2, pyr, prism, hex, hexprism; '
        'tet together with tet2 included; arbitrary distinct node / element ids incl. ~2e9; storage order ascending, '
        'descending or shuffled per type block) x 0-4 extra nodal variables (plus NODE, or no nodal variable at all after '
        'nodal_data.pop) x 0-4 elemental variables (attached through update_data or generate_elemental_attribute) of widths '
        '1-9 x float64 values drawn from small integers, dyadic rationals, decimals, NaN, +-0.0, denormals, 1e+-300, '
        'DBL_MAX, +-inf and uniformly random bit patterns, in coordinates too; in 40% of the cases a share of the nodal and '
        'elemental variables is stored under a dict key that differs from its FEMAttribute.name (fresh name, the key of '
        'another variable, one name shared by several keys; attached by attrs[key] = attribute, attrs.update({key: attribute}) '
        'or set_attribute_data(key, data, name=...)): the variable\'s name in the file and after reading is the KEY; distinct =distinct (mesh, variables, values); '
        'non-trivial = at least 2 elements and at least one variable besides NODE. Stream own-id-order: the same meshes, '
        'every variable stored in a private id order drawn from {mesh order, ascending, descending, reversed mesh order, '
        'rolled, shuffled}, 2-4 variables in at least one of the two families (nodal / elemental); non-trivial = some '
        'family holds two variables whose orders differ from the mesh order and from each other')
ASSUMPTIONS = [
    'the ids of a nodal (elemental) variable are a permutation of the mesh\'s node (element) ids; the row order of each '
    'variable is its own (aligned with the mesh in the main stream, private per variable in the stream own-id-order)',
    'variable names are identifiers without comma or blank; NaNs are compared as NaN (one token; sign / payload of a NaN '
    'are not representable in the text format)',
    'node and element ids are positive integers below 2**53 (the reader converts ids through float)',
    'polygon / polyhedron elements (object connectivity) and second-order types other than tet2 (the writer raises) are '
    'outside the property',
]
TRUSTED = ['C04: parse (print v) = v for Python shortest-repr printing and float() (hypothesis of C04_roundtrip_printed)']

UCD_TYPES = ['line', 'spring', 'tri', 'quad', 'tet', 'tet2', 'pyr', 'prism', 'hex', 'hexprism']
NAMES = ['T', 'U', 'DISPLACEMENT', 'NodalSTRESS', 'tet', 'hex2', 'inf', 'E12', 'x_1', 'unit', 'ELEMENT', 'p', 'Mises']
ALNUM = 'ABCDEFGHIJKLMNOPQRSTUVWXYZabcdefghijklmnopqrstuvwxyz0123456789_'
SPECIAL = [float('nan'), 0.0, -0.0, 5e-324, -5e-324, 2.2250738585072014e-308, -2.225073858507201e-308, 1e300, -1e300,
           1e-300, 1.7976931348623157e308, -1.7976931348623157e308, float('inf'), float('-inf'), 0.1, 1 / 3, 1e22, 1e23,
           9007199254740993.0, 123456789.12345679, 1e16, 1e-5, 0.0001]


def bits(x):
    x = float(x)
    return 'nan' if x != x else struct.pack('<d', x).hex()


def ftok(x):
    """the numeral pandas' to_csv(na_rep='NaN') prints for a float64"""
    x = float(x)
    if x != x:
        return 'NaN'
    return repr(x)


def rand_float(rnd, special=.25):
    k = rnd.random()
    if k < special:
        return rnd.choice(SPECIAL)
    if k < .45:
        return float(rnd.randint(-50, 50))
    if k < .6:
        return rnd.randint(-10**6, 10**6) / 2**rnd.randint(0, 20)
    if k < .75:
        return float('%.12e' % rnd.uniform(-1e5, 1e5))
    x = struct.unpack('<d', struct.pack('<Q', rnd.getrandbits(64)))[0]
    return x


def is_alias(n):
    """femio renames a variable whose name is one of its alias keys (config.DICT_ALIASES, e.g. 'vf' -> 'VF',
    'disp' -> 'DISPLACEMENT') when it is stored: such reserved names are not arbitrary user names"""
    from femio import config
    return config.DICT_ALIASES.get(n, n) != n


def rand_names(rnd, k, taken=()):
    out = []
    while len(out) < k:
        n = rnd.choice(NAMES) if rnd.random() < .6 else \
            rnd.choice(ALNUM[:52]) + ''.join(rnd.choice(ALNUM) for _ in range(rnd.randint(0, 9)))
        if n in out or n in taken or n == 'NODE' or is_alias(n):
            continue
        out.append(n)
    return out


ORDER_CLASSES = ['mesh', 'asc', 'desc', 'reversed', 'rolled', 'shuffled', 'shuffled']


def private_order(rnd, ids, cls):
    ids = list(ids)
    if cls == 'asc':
        return sorted(ids)
    if cls == 'desc':
        return sorted(ids, reverse=True)
    if cls == 'reversed':
        return ids[::-1]
    if cls == 'rolled' and len(ids) > 1:
        k = rnd.randrange(1, len(ids))
        return ids[k:] + ids[:k]
    if cls == 'shuffled':
        rnd.shuffle(ids)
    return ids


def rename_some(rnd, vars_, aligned):
    """a share of the variables of one family is stored under a dict KEY (v['name'], the variable's name for the user and
    in the file) that differs from its FEMAttribute.name (v['attr']): a fresh name, the key of another variable of the
    family, or one name shared by several keys.  Such a variable is attached through `attrs[key] = attribute`,
    `attrs.update({key: attribute})` or `attrs.set_attribute_data(key, data, name=...)` (the last one takes the ids of
    the first attribute: only for variables in mesh order)"""
    keys = [v['name'] for v in vars_]
    shared = rand_names(rnd, 1, taken=keys)[0]
    for v in vars_:
        if rnd.random() < .65:
            others = [k for k in keys if k != v['name']]
            r = rnd.random()
            v['attr'] = shared if r < .45 else rnd.choice(others) if (r < .7 and others) else rand_names(rnd, 1, taken=keys)[0]
            if v['how'] != 'generate':
                v['how'] = rnd.choice(['setitem', 'update'] + (['set_attribute_data'] if aligned else []))


def gen_case(rnd, own_orders=False):
    """-> JSON-able description from which `build` makes the FEMData; own_orders: every variable keeps its rows in a
    private id order, and at least one family (nodal / elemental) has two or more variables"""
    r = rnd.random()
    if r < .12:
        types = ['tet', 'tet2']
    elif r < .45:
        types = [rnd.choice(UCD_TYPES)]
    else:
        types = rnd.sample(UCD_TYPES, rnd.randint(2, 3))
    m = G.gen_combinatorial(rnd, types=types, max_elems=max(len(types), rnd.choice([1, 3, 6, 12])))
    for _ in range(20 if own_orders else 0):      # private orders need a few rows to differ from each other
        if sum(len(b) for b in m['blocks'].values()) >= 4:
            break
        m = G.gen_combinatorial(rnd, types=types, max_elems=max(len(types), rnd.choice([6, 9, 12])))
    sp = rnd.choice([0, .05, .3])
    nodes = [[i, [rand_float(rnd, sp) if sp else float(v) for v in p]] for i, p in m['nodes']]
    nids = [i for i, _ in nodes]
    blocks = {t: [[e, list(c)] for e, c in b] for t, b in m['blocks'].items()}
    # elements.ids of the FEMData: one block -> storage order, several -> ascending
    eids = [e for b in blocks.values() for e, _ in b]
    if len(blocks) > 1:
        eids.sort()
    n_nv = rnd.choice([0, 0, 1, 2, 3, 4])
    n_ev = rnd.choice([0, 1, 1, 2, 3, 4])
    if own_orders:
        n_nv, n_ev = rnd.choice([(2, 0), (0, 2), (2, 2), (3, 1), (1, 3), (4, 2), (2, 4), (3, 3)])
    pop_node = n_nv == 0 and rnd.random() < .6
    widths = [1, 1, 3, 3, 6, 2, 4, 5, 7, 9]

    def var(name, ids, how):
        w = rnd.choice(widths)
        own = list(ids)
        if own_orders:
            own = private_order(rnd, ids, rnd.choice(ORDER_CLASSES))
        return {'name': name, 'ids': own, 'how': how, 'data': [[rand_float(rnd) for _ in range(w)] for _ in own]}
    nv = [var(n, nids, 'update_data') for n in rand_names(rnd, n_nv)]
    ev = [var(n, eids, rnd.choice(['update_data', 'update_data', 'generate'] if own_orders else ['update_data', 'generate']))
          for n in rand_names(rnd, n_ev)]
    if rnd.random() < .4:
        rename_some(rnd, nv, aligned=not own_orders)
        rename_some(rnd, ev, aligned=not own_orders)
    return {'nodes': nodes, 'blocks': blocks, 'nodal_vars': nv, 'elem_vars': ev, 'pop_node': pop_node,
            'kind': m['kind'], 'order': m['order'], 'id_style': m['id_style']}


def enc_f(x):
    return 'nan' if x != x else float(x).hex()


def dec_f(s):
    return float('nan') if s == 'nan' else float.fromhex(s) if isinstance(s, str) else float(s)


def to_json(case):
    """floats as hex strings (NaN / inf are not JSON)"""
    def fl(rows):
        return [[enc_f(x) for x in r] for r in rows]
    return {**case, 'nodes': [[i, [enc_f(x) for x in p]] for i, p in case['nodes']],
            'nodal_vars': [{**v, 'data': fl(v['data'])} for v in case['nodal_vars']],
            'elem_vars': [{**v, 'data': fl(v['data'])} for v in case['elem_vars']]}


def from_json(j):
    def fl(rows):
        return [[dec_f(x) for x in r] for r in rows]
    return {**j, 'nodes': [[i, [dec_f(x) for x in p]] for i, p in j['nodes']],
            'nodal_vars': [{**v, 'data': fl(v['data'])} for v in j['nodal_vars']],
            'elem_vars': [{**v, 'data': fl(v['data'])} for v in j['elem_vars']]}


def build(case):
    from femio import FEMData, FEMAttribute, FEMElementalAttribute
    nodes = FEMAttribute('NODE', ids=np.array([i for i, _ in case['nodes']]),
                         data=np.array([p for _, p in case['nodes']], dtype=float), silent=True)
    el = {t: FEMAttribute(t, ids=np.array([e for e, _ in b]), data=np.array([c for _, c in b]), silent=True)
          for t, b in case['blocks'].items()}
    fd = FEMData(nodes=nodes, elements=FEMElementalAttribute('ELEMENT', G.insertion_order(el)))

    def attach(attrs, v, make):
        """store the variable under the KEY v['name']; its FEMAttribute.name is v['attr'] (default: the key)"""
        key, attr, ids, data = v['name'], v.get('attr', v['name']), np.array(v['ids']), np.array(v['data'], dtype=float)
        how = v['how']
        if how == 'set_attribute_data' and not (len(attrs) and [int(i) for i in list(attrs.values())[0].ids] == v['ids']
                                                and attrs.are_same_lengths()):
            how = 'setitem'      # set_attribute_data binds the rows to the ids of the first attribute
        if how == 'update_data':
            assert attr == key
            attrs.update_data(ids, {key: data})
        elif how == 'generate':
            attrs[key] = fd.elements.generate_elemental_attribute(attr, ids, data)
        elif how == 'setitem':
            attrs[key] = make(attr, ids, data)
        elif how == 'update':
            attrs.update({key: make(attr, ids, data)})
        elif how == 'set_attribute_data':
            attrs.set_attribute_data(key, data, name=attr)
        else:
            raise ValueError(how)
    for v in case['nodal_vars']:
        attach(fd.nodal_data, v, lambda name, ids, data: FEMAttribute(name, ids=ids, data=data))
    for v in case['elem_vars']:
        attach(fd.elemental_data, v, lambda name, ids, data: FEMElementalAttribute(name, data, ids=ids))
    if case['pop_node']:
        fd.nodal_data.pop('NODE')
    return fd


# ------------------------------------------------------------------ model input = what the writer looks at

def model_fem(fd):
    """protocol encoding of the FEMData as the writer sees it: every 2-D variable with its own ids and rows"""
    t = []
    nids = [int(i) for i in fd.nodes.ids]
    t.append(C.enc_list(zip(nids, fd.nodes.data), lambda r: f'{r[0]} {C.enc_list(r[1], ftok)}'))
    blocks = [(G.ELEMENT_TYPES.index(k), v) for k, v in fd.elements.items()]
    t.append(C.enc_list(blocks, lambda b: f'{b[0]} ' + C.enc_list(
        zip(b[1].ids, b[1].data), lambda e: f'{int(e[0])} {C.enc_list([int(n) for n in e[1]])}')))

    def tabs(attrs):
        vs = [(k, v) for k, v in attrs.items() if len(np.shape(v.data)) == 2]
        return C.enc_list(vs, lambda kv: ' '.join([
            C.esc(kv[0]), str(np.shape(kv[1].data)[1]), C.enc_list([int(i) for i in kv[1].ids]),
            C.enc_list(kv[1].data, lambda r: C.enc_list(r, ftok))]))
    t.append(tabs(fd.nodal_data))
    t.append(tabs(fd.elemental_data))
    return ' '.join(t)


def dec_read(rep):
    t = C.Toks(rep)
    if t.tok() != 'ok':
        raise RuntimeError('driver: ' + rep[:200])
    if t.nat() == 0:
        return None

    def idrow():
        i = t.nat()
        return i, t.lst(t.tok)
    nodes = t.lst(idrow)
    blocks = t.lst(lambda: (t.nat(), t.lst(lambda: (t.nat(), t.lst(t.nat)))))

    def tabs():
        # one table per variable, cut out of the rows by the MODEL (`readTables`, the function of the theorems)
        out = {}
        for _ in range(t.nat()):
            name, w = C.unesc(t.tok()), t.nat()
            ids = t.lst(t.nat)
            rows = t.lst(lambda: t.lst(lambda: bits(float(C.unesc(t.tok())))))
            assert all(len(r) == w for r in rows) or not rows
            out[name] = (ids, rows)
        return out
    nodal = tabs()
    elem = tabs()
    assert t.done()
    return {'nodes': ([i for i, _ in nodes], [[bits(float(x)) for x in r] for _, r in nodes]),
            'blocks': {G.ELEMENT_TYPES[ty]: [(i, c) for i, c in es] for ty, es in blocks},
            'nodal': nodal, 'elem': elem}


def model_write(ctx, flag, enc):
    """-> (hypotheses of the character-level theorems hold on this input, the file text of the model writer)"""
    t = C.Toks(ctx.driver.ask(f'c04.write {flag} ' + enc))
    if t.tok() != 'ok':
        raise RuntimeError('driver: c04.write failed')
    hyp = t.nat()
    text = C.unesc(t.tok())
    assert t.done()
    return bool(hyp), text


def check_ws_table(ctx):
    """tie of the lexer's whitespace class: `Femio.Text.wsCodes` = the code points with str.isspace() = the regex whitespace class"""
    import re
    t = C.Toks(ctx.driver.ask('c04.ws'))
    t.tok()
    model = t.lst(t.nat)
    py = [c for c in range(0x110000) if chr(c).isspace()]
    rx = [c for c in range(0x3100) if re.fullmatch(r'\s', chr(c))]
    if model != py or rx != [c for c in py if c < 0x3100]:
        ctx.disagree('whitespace class of the model lexer != str.isspace / regex whitespace class', {}, py, model)
    ctx.count('tie: whitespace table checked')


# ------------------------------------------------------------------ observation of the real implementation

def tab(attr):
    return [int(i) for i in attr.ids], [[bits(x) for x in row] for row in attr.data]


def observe(fd):
    return {'nodes': tab(fd.nodes),
            'blocks': {k: [(int(i), [int(n) for n in c]) for i, c in zip(v.ids, v.data)] for k, v in fd.elements.items()},
            'nodal': {k: tab(v) for k, v in fd.nodal_data.items()},
            'elem': {k: tab(v) for k, v in fd.elemental_data.items()}}


def keyed(t):
    return {i: tuple(r) for i, r in zip(*t)}


def real(f, *a, **k):
    import warnings
    try:
        with warnings.catch_warnings():
            warnings.simplefilter('ignore')
            return G.quiet(f, *a, **k), None
    except Exception as e:  # noqa
        return None, f'{type(e).__name__}: {str(e)[:160]}'


def brief(case):
    return {'kind': case['kind'], 'order': case['order'], 'id_style': case['id_style'], 'n_nodes': len(case['nodes']),
            'n_elems': sum(len(b) for b in case['blocks'].values()), 'types': list(case['blocks']),
            'nodal_vars': [(v['name'], len(v['data'][0])) for v in case['nodal_vars']],
            'elem_vars': [(v['name'], len(v['data'][0]), v['how']) for v in case['elem_vars']],
            'pop_node': case['pop_node'],
            'key!=FEMAttribute.name': {v['name']: [v['attr'], v['how']] for v in case['nodal_vars'] + case['elem_vars']
                                       if v.get('attr', v['name']) != v['name']}}


def oracle(ctx, case, report):
    """property on the real API: write -> read -> compare with the data the case was built from"""
    from femio import FEMData
    path = ctx.tmp / 'c04' / 'mesh.inp'
    path.parent.mkdir(exist_ok=True)
    if path.exists():
        path.unlink()
    fd, err = real(build, case)
    if err:
        raise RuntimeError('harness: could not build the FEMData: ' + err)
    _, err = real(fd.write, 'ucd', path)
    if err:
        report('write-raises', f'write("ucd") raises {err}', {'error': err})
        return fd, None, None
    text = path.read_text()
    rd, err = real(FEMData.read_files, 'ucd', path)
    if err:
        report('read-raises', f'read_files("ucd") of the written file raises {err}', {'error': err})
        return fd, text, None
    obs = observe(rd)
    # coordinates by node id
    want = {i: tuple(bits(x) for x in p) for i, p in case['nodes']}
    got = keyed(obs['nodes'])
    if got != want:
        bad = [i for i in want if got.get(i) != want[i]][:3]
        report('coordinates-differ', f'coordinates of node {bad} read back differ / node missing',
               {'ids': bad, 'read': [got.get(i) for i in bad], 'written': [want[i] for i in bad],
                'extra_nodes': sorted(set(got) - set(want))[:3]})
    # elements: type and connectivity by id (tet2 -> tet, first four nodes)
    wante = {}
    for t, b in case['blocks'].items():
        for e, c in b:
            wante[e] = ('tet', tuple(c[:4])) if t == 'tet2' else (t, tuple(c))
    gote = {i: (t, tuple(c)) for t, b in obs['blocks'].items() for i, c in b}
    if gote != wante:
        bad = [e for e in wante if gote.get(e) != wante[e]][:3]
        sig = 'tet2-not-corner-tet' if any(t == 'tet2' for t in case['blocks']) and all(
            gote.get(e) == wante[e] for t, b in case['blocks'].items() if t != 'tet2' for e, _ in b) else 'elements-differ'
        report(sig, f'elements {bad} read back with another type / connectivity, or missing / extra elements',
               {'ids': bad, 'read': [gote.get(e) for e in bad], 'written': [wante[e] for e in bad],
                'extra': sorted(set(gote) - set(wante))[:3]})
    # variables (own = the variable's own id order inside the FEMData that was written)
    mesh_ids = {'nodal': [int(i) for i in fd.nodes.ids], 'elem': [int(i) for i in fd.elements.ids]}
    attrs = {'nodal': fd.nodal_data, 'elem': fd.elemental_data}
    for key, vars_, extra in (('nodal', case['nodal_vars'], {'NODE'}), ('elem', case['elem_vars'], set())):
        names = {v['name'] for v in vars_}
        if set(obs[key]) - extra != names:
            report(f'variables-differ:{key}', f'{key} variables read {sorted(obs[key])} != written {sorted(names)}',
                   {'read': sorted(obs[key]), 'written': sorted(names)})
            continue
        for v in vars_:
            want = {i: tuple(bits(x) for x in r) for i, r in zip(v['ids'], v['data'])}
            got = keyed(obs[key][v['name']])
            if got != want:
                bad = [i for i in want if got.get(i) != want[i]][:3]
                own = [int(i) for i in attrs[key][v['name']].ids]
                if own != mesh_ids[key] and sorted(own) == sorted(mesh_ids[key]):
                    report(f'positional-binding:{key}:{v["how"]}',
                           f'{key} variable {v["name"]!r} (attached with {v["how"]}; its own id order {own[:4]}.. differs from '
                           f'the mesh\'s {mesh_ids[key][:4]}..) is not written by id: the value read back under id {bad[0]} '
                           f'is not the value the variable holds for that id', {'variable': v['name'], 'ids': bad, 'read': [got.get(i) for i in bad],
                                                      'written': [want[i] for i in bad], 'variable_ids': own[:6],
                                                      'mesh_ids': mesh_ids[key][:6]})
                else:
                    report(f'values-differ:{key}', f'{key} variable {v["name"]!r}: the value read under id {bad[0]} is not '
                           f'the value it had before writing', {'variable': v['name'], 'ids': bad,
                                                                'read': [got.get(i) for i in bad],
                                                                'written': [want[i] for i in bad]})
        if key == 'nodal' and 'NODE' in obs[key] and keyed(obs[key]['NODE']) != keyed(obs['nodes']):
            report('values-differ:nodal', 'nodal variable NODE differs from the coordinates', {})
    return fd, text, obs


CFGS = {'fixed': 1, 'upstream': 0}


def run_case(ctx, case, cfg_mismatch, stream='main'):
    # both streams (main, own-id-order) are inside the property's quantifier: failures are reported through ctx.fail
    def report(sig, what, observed):
        ctx.fail(sig, what, to_json(case), observed)
        if stream != 'main':
            ctx.count(f'{stream}: {sig}')
    fd, text, obs = oracle(ctx, case, report)
    if ctx.driver is None or text is None:
        return
    # (a) writer: the characters of the real file vs the characters `fileText` of the model writer, for each Cfg
    # (exactly one must reproduce every file)
    enc = model_fem(fd)
    for name, flag in CFGS.items():
        hyp, mtext = model_write(ctx, flag, enc)
        if name == 'fixed':
            ctx.count('hypotheses of C04_roundtrip_chars / C04_own_order_chars hold (femOKB, meshOKB): ' + ('yes' if hyp else 'NO'))
            if not hyp:
                ctx.disagree(f'{stream}: generated case violates the Boolean hypotheses of the character-level theorems',
                             brief(case), 'in-quantifier input', 'femOKB && meshOKB = false')
        if mtext != text:
            mlines, rlines = mtext.split('\n'), text.split('\n')
            k = next((i for i, (a, b) in enumerate(zip(mlines, rlines)) if a != b), min(len(mlines), len(rlines)))
            cfg_mismatch[name].append((f'{stream}: written file != model writer', brief(case),
                                       {'line': k, 'text': rlines[k:k + 2], 'n_lines': len(rlines)},
                                       {'line': k, 'text': mlines[k:k + 2], 'n_lines': len(mlines)}))
    # (b) reader: real reader vs model reader (`readText` + `readTables`) on the characters of the real file
    mread = dec_read(ctx.driver.ask('c04.read ' + C.esc(text)))
    if obs is None or mread is None:
        if (obs is None) != (mread is None):
            ctx.disagree(f'{stream}: reader raises / model reader fails', brief(case), obs is None, mread is None)
        return
    impl = {'nodes': obs['nodes'], 'blocks': obs['blocks'],
            'nodal': {k: v for k, v in obs['nodal'].items() if k != 'NODE' or 'NODE' in mread['nodal']},
            'elem': obs['elem']}
    for part in ('nodes', 'blocks', 'nodal', 'elem'):
        if impl[part] != mread[part]:
            ctx.disagree(f'{stream}: real reader != model reader ({part})', brief(case), str(impl[part])[:400],
                         str(mread[part])[:400])
            break


def own_order_families(case):
    """per family: number of distinct row orders (as they are in the built FEMData: generate_elemental_attribute sorts)
    that differ from the mesh order"""
    nids = [i for i, _ in case['nodes']]
    eids = [e for b in case['blocks'].values() for e, _ in b]
    if len(case['blocks']) > 1:
        eids.sort()
    out = {}
    for key, vars_, mesh in (('nodal', case['nodal_vars'], nids), ('elemental', case['elem_vars'], eids)):
        orders = {tuple(sorted(v['ids']) if v['how'] == 'generate' else v['ids']) for v in vars_}
        out[key] = len(orders - {tuple(mesh)})
    return out


def count_renames(ctx, case, stream=''):
    for fam, vars_ in (('nodal', case['nodal_vars']), ('elemental', case['elem_vars'])):
        ren = [v for v in vars_ if v.get('attr', v['name']) != v['name']]
        for v in ren:
            ctx.count(f'{stream}key != FEMAttribute.name: {fam} variable attached by {v["how"]}')
        names = [v.get('attr', v['name']) for v in vars_]
        if len(set(names)) < len(names):
            ctx.count(f'{stream}key != FEMAttribute.name: cases with two {fam} keys sharing one attribute name')
        if any(v['attr'] in {w['name'] for w in vars_} for v in ren):
            ctx.count(f'{stream}key != FEMAttribute.name: cases with a {fam} attribute named like another key')


def run(ctx):
    n_cases =ctx.n(220, 2500) if ctx.driver is not None else ctx.n(400, 3000)
    cfg_mismatch = {c: [] for c in CFGS}
    if ctx.driver is not None:
        check_ws_table(ctx)
    for name, obj in C.corpus_cases(PROP):
        run_case(ctx, from_json(obj['input']), cfg_mismatch)
        ctx.count('corpus')
    for k in range(n_cases):
        case = gen_case(ctx.rng)
        vals = [x for v in case['nodal_vars'] + case['elem_vars'] for r in v['data'] for x in r] + \
               [x for _, p in case['nodes'] for x in p]
        ctx.case(str(to_json(case)), sample=brief(case),
                 nontrivial=sum(len(b) for b in case['blocks'].values()) >= 2 and bool(case['nodal_vars'] or case['elem_vars']))
        ctx.count('mesh:' + ('mixed' if len(case['blocks']) > 1 else 'uniform'))
        for t in case['blocks']:
            ctx.count('etype:' + t)
        if 'tet' in case['blocks'] and 'tet2' in case['blocks']:
            ctx.count('tet+tet2 in one mesh')
        ctx.count('storage-order:' + case['order'])
        ctx.count('id-style:' + case['id_style'])
        ctx.count(f"blocks nodal/elemental:{'absent' if case['pop_node'] else 'present'}/"
                  f"{'present' if case['elem_vars'] else 'absent'}")
        ctx.count(f"n_nodal_vars(+NODE):{len(case['nodal_vars'])}")
        ctx.count(f"n_elem_vars:{len(case['elem_vars'])}")
        for v in case['elem_vars']:
            ctx.count('elemental attached by:' + v['how'])
        count_renames(ctx, case)
        ctx.count('values:nan', sum(1 for x in vals if x != x))
        ctx.count('values:inf', sum(1 for x in vals if math.isinf(x)))
        ctx.count('values:-0.0', sum(1 for x in vals if x == 0 and math.copysign(1, x) < 0))
        ctx.count('values:denormal', sum(1 for x in vals if x == x and x != 0 and abs(x) < 2.2250738585072014e-308))
        ctx.count('values:|x|>=1e300', sum(1 for x in vals if x == x and not math.isinf(x) and abs(x) >= 1e300))
        ctx.count('values:total', len(vals))
        run_case(ctx, case, cfg_mismatch)
    # stream own-id-order (DESIGN section 5, F9 - fixed in the tree: the writer binds rows to ids): every variable keeps its
    # rows in a private id order; part of the property oracle (values read back are bound to the same ids, bit-identical)
    for k in range(ctx.n(90, 700) if ctx.driver is not None else ctx.n(160, 900)):
        case = gen_case(ctx.rng, own_orders=True)
        fams = own_order_families(case)
        ctx.case(('own-id-order', str(to_json(case))), sample=None, nontrivial=any(n >= 2 for n in fams.values()))
        ctx.count('own-id-order: cases')
        for key, n in fams.items():
            ctx.count(f'own-id-order: {key} variables with distinct private orders != mesh order: {min(n, 3)}{"+" if n >= 3 else ""}')
        for v in case['nodal_vars'] + case['elem_vars']:
            ctx.count('own-id-order: attached by ' + v['how'])
        count_renames(ctx, case, 'own-id-order: ')
        run_case(ctx, case, cfg_mismatch, stream='own-id-order')
    if ctx.driver is not None:
        agree = [c for c in CFGS if not cfg_mismatch[c]]
        ctx.extra['cfg_detected'] = agree
        ctx.extra['cfg_mismatches'] = {c: len(v) for c, v in cfg_mismatch.items()}
        if 'fixed' not in agree:
            for what, b, impl, model in cfg_mismatch['fixed'][:10]:
                ctx.disagree(what + ' Cfg.fixed' + (' (tree behaves as Cfg.upstream: F9)' if 'upstream' in agree else ''),
                             b, impl, model)
    ctx.failures.sort(key=lambda f: (len(f['case']['nodes']), sum(len(b) for b in f['case']['blocks'].values())))


def replay(ctx, obj):
    case = from_json(obj['input'])
    found = []
    fd, text, obs = oracle(ctx, case, lambda sig, what, observed: found.append(
        {'signature': sig, 'what': what, 'observed': observed}))
    out = {'case': brief(case), 'failures': found, 'fails': bool(found), 'file_head': (text or '').split('\n')[:6]}
    if ctx.driver is not None and text is not None:
        enc = model_fem(fd)
        out['model_writer_agrees'] = {}
        for name, flag in CFGS.items():
            out['model_writer_agrees']['Cfg.' + name] = model_write(ctx, flag, enc)[1] == text
        mread = dec_read(ctx.driver.ask('c04.read ' + C.esc(text)))
        out['model_reader'] = None if mread is None else {'nodes': str(mread['nodes'])[:200], 'blocks': str(mread['blocks'])[:300]}
    return out
