"""C04 - AVS UCD write -> read is bit-exact for mesh, nodal and elemental data (DESIGN.md section 4, C04).

Tie D: random FEMData (arbitrary ids / storage order, any mix of first-order element types and tet2, any number of
nodal / elemental variables of arbitrary width, any float64 values) ->
  (a) the file written by the real `FEMData.write('ucd')` is compared line by line with the text the model writer
      `Femio.Ucd.write` produces from "what the writer looks at" (values enter the model as their printed numerals);
  (b) the real reader's result on that file is compared with the model reader `Femio.Ucd.read` run on the same text
      (ids, storage order, per-type blocks, variables, values by bit pattern).
Oracle: real write -> real read -> bitwise equality by id, same types / connectivity (tet2 -> corner tet), same
variables.  Variables whose own id order differs from the mesh's (DESIGN section 5, F9: fixed in the tree, the writer
binds rows to ids) are inside the oracle: stream `own-id-order` gives every variable a private row order (mesh order,
ascending, descending, reversed, rolled, shuffled), with two or more nodal and / or elemental variables carrying
DIFFERENT private orders, and demands the values read back under every id to be bit-identical to the variable's own
row for that id.  The correspondence (model writer Cfg.fixed = rows looked up by id per variable) runs on it as well.

Histories (seeded change C04-6: the writer took coordinates / nodal values from the attributes' pandas frames, which do not
share memory with the arrays behind `.data`): in both streams about 40% of the objects are NOT written as constructed.
`case['hist']` = the object is optionally first written and read back from a UCD file (write after read), optionally
written once already, then modified 0-4 times through public means (in-place edits through the arrays returned by `.data`
/ `.values` / `get_attribute_data` of nodes, nodal and elemental variables and connectivity, edits through the arrays the
caller handed to the constructors, `data` setter with and without later edits of the assigned array, `.loc` / `.iloc`
write-through, `update` / `update_data(..., allow_overwrite=True)`, `overwrite` with and without ids, pop / add of
variables, `elements.update` of whole type blocks, block update of elemental variables, renumbering of nodes / elements by
permutations of the SAME ids, offsets and rank reversal), then written once or twice.  Expected = the snapshot of the
object's public state (`ids` / `data` views) taken just before write(); the model writer is fed that snapshot (byte
identity), an independently constructed fresh object with the same content must give the same bytes, a second write the
same bytes, write() must leave the public state as it was, and the session model (`Model/UcdHist.lean`) must hold, at the
end, exactly the files on disk.  An object whose public views disagree with each other (aggregate element view vs
per-type blocks) is outside the property: counted under `outside`, never reported.

Round 5 (seeded change C04-9: `_align_data` through a dense table indexed by the id, negative ids wrap around): "arbitrary
node / element ids" now includes ids that are not positive.  Dimension SIGNED IDS (22% of the main stream, 40% of
own-id-order; node ids, element ids or both are replaced through a monotone map, so the storage-order class is kept):
dense ranges through zero (every negative id -k lives next to the id max+1-k), zero-based, all negative, sparse around
zero with -1 and 0, mirror pairs k / -k, a few negative ids next to ids ~1e6 / ~2e9, ids at and beyond the limits of the
32-bit integers; histories renumber through zero (negative offsets).  Dimension ID DTYPE (25%): the id arrays and the
connectivity are handed over as int8 .. int64 / uint8 .. uint32, one dtype for everything or one per array.  Dimension
SQUARE (10%): as many elements as nodes.  Histories may start from a DERIVED object (to_first_order / resolve_degeneracy /
to_surface of the constructed one, optionally after the parent has been written).  Stream `large` (oracle only): one
object per quick run whose four tables (nodes, elements, nodal data, elemental data) all have more than 65536 rows.
The Lean model of the file has natural-number ids: an object with a negative id is judged by the oracle (+ fresh object)
and its two data blocks by the model of `_align_data` over integer ids (`Model/UcdAlignInt.lean`, `c04.align`:
ACfg.dict = rows found by id as a key; ACfg.denseTable = ids used as array positions).  corpus/C04 holds two fixed objects
(ids -1..6 with private orders; ids at the int32 limits) that are run first on every run.
"""
import math
import struct

import numpy as np

from . import common as C
from . import meshgen as G

PROP = 'C04'
LEAN_MODULES = ['Femio.Props.C04']
THEOREMS = ['C04_offsets', 'C04_roundtrip', 'C04_roundtrip_printed', 'C04_tet2_first_order', 'C04_nothing_else_changes',
            'C04_bound_to_same_ids', 'C04_type_table', 'C04_misaligned_counterexample',
            'C04_bound_to_same_ids_own_order', 'C04_own_order_counterexample_upstream', 'C04_lex_print_line',
            'C04_roundtrip_lines', 'C04_roundtrip_chars', 'C04_roundtrip_chars_printed', 'C04_own_order_chars',
            'C04_history_roundtrip', 'C04_write_leaves_object', 'C04_second_write_same_file',
            'C04_file_of_public_state_only', 'C04_stale_frame_counterexample',
            'C04_align_by_key', 'C04_align_any_sign', 'C04_dense_table_counterexample']
PARTIAL = [
    'ids of any sign: C04_align_by_key / C04_align_any_sign state the id binding of _align_data for integer ids of any sign '
    '(rows found by id as a key); the character-level round trip theorems (C04_roundtrip_chars ...) are stated for natural-number '
    'ids (Tok.n); the printing / lexing of a leading minus sign of an id is not modelled (oracle only)',
    'C04_roundtrip_printed / C04_roundtrip_chars_printed: parametric in (print, parse) with the hypotheses '
    'parse (print v) = v and valOKB (print v); that Python\'s shortest repr / float() satisfy the first is trusted and '
    'exercised by the special-value stream (bit patterns compared); the second is a Boolean function the driver '
    'evaluates on every printed value of every case (count "hypotheses ... hold")',
    'character level: lines are split at newlines with empty lines skipped (pd.read_csv(sep="@", header=None) inside '
    'StringSeries.read_file is modelled by that rule, its quoting / carriage-return handling is not modelled; '
    'names and numerals contain neither quotes nor carriage returns)',
    'C04_history_roundtrip / C04_second_write_same_file / C04_file_of_public_state_only: the session model (Model/UcdHist.lean) '
    'takes the effect of a modification on the public state as data (Step.assign / Step.inplace carry the resulting state, '
    'Step.edit an arbitrary function): how pandas / numpy compute that state (combine_first, write-through, aliasing) is not '
    'modelled; the tie feeds the model the snapshots taken from the real object before each write and compares every file',
]
RULE = ('random combinatorial mesh (1-3 element types out of line, spring, tri, quad, tet, tet2, pyr, prism, hex, hexprism; '
        'tet together with tet2 included; arbitrary distinct node / element ids incl. ~2e9; storage order ascending, '
        'descending or shuffled per type block) x 0-4 extra nodal variables (plus NODE, or no nodal variable at all after '
        'nodal_data.pop) x 0-4 elemental variables (attached through update_data or generate_elemental_attribute) of widths '
        '1-9 x float64 values drawn from small integers, dyadic rationals, decimals, NaN, +-0.0, denormals, 1e+-300, '
        'DBL_MAX, +-inf and uniformly random bit patterns, in coordinates too; in 40% of the cases a share of the nodal and '
        'elemental variables is stored under a dict key that differs from its FEMAttribute.name (fresh name, the key of '
        'another variable, one name shared by several keys; attached by attrs[key] = attribute, attrs.update({key: attribute}) '
        'or set_attribute_data(key, data, name=...)): the variable\'s name in the file and after reading is the KEY; distinct =distinct (mesh, variables, values); '
        'non-trivial = at least 2 elements and at least one variable besides NODE. Stream own-id-order: the same meshes, '
        'every variable stored in a private id order drawn from {mesh order, ascending, descending, reversed mesh order, '
        'rolled, shuffled}, 2-4 variables in at least one of the two families (nodal / elemental); non-trivial = some '
        'family holds two variables whose orders differ from the mesh order and from each other. Dimension HISTORY (42% of '
        'the main stream, 30% of own-id-order): the object is not written as constructed: optionally read from a UCD file '
        'first (14%), optionally written once before (40%; to the same or another file), then 0-4 modifications through public '
        'means with concrete arguments chosen against the live object (in-place edits of cells / rows / whole arrays through '
        '.data, .values, get_attribute_data of nodes, nodal / elemental variables, connectivity; edits through the arrays the '
        'caller passed to the constructors; data setter (+ later edit of the assigned array, width changes); .loc / .iloc / '
        'slice / scalar write-through; update / update_data(allow_overwrite=True); overwrite with / without ids; pop / add '
        'variables; elements.update and elemental block updates; renumbering nodes / elements by a permutation of the same ids, '
        'an offset or rank reversal), then one or two final writes (other file / same file with overwrite=True); expectation = '
        'snapshot of the public ids / data views just before write(); every history is replayable from its JSON description. '
        'Dimension SIGNED IDS (22% main / 40% own-id-order): node and / or element ids replaced through a monotone map by a '
        'dense range through zero, zero-based, all negative, sparse around zero, mirror pairs, negative next to ~1e6 / ~2e9, ids '
        'at / beyond the int32 limits; negative renumbering offsets in histories. Dimension ID DTYPE (25%): ids / connectivity '
        'as int8..int64, uint8..uint32. Dimension SQUARE (10%): n_elements == n_nodes. Histories may start from an object '
        'derived by to_first_order / resolve_degeneracy / to_surface (16% of the histories; parent optionally written first). '
        'Stream large (oracle only; 1 per quick run with all four tables > 65536 rows, 6 per thorough run of three shapes). '
        'Corpus: 2 fixed signed-id objects')
ASSUMPTIONS = [
    'the ids of a nodal (elemental) variable are a permutation of the mesh\'s node (element) ids; the row order of each '
    'variable is its own (aligned with the mesh in the main stream, private per variable in the stream own-id-order)',
    'variable names are identifiers without comma or blank; NaNs are compared as NaN (one token; sign / payload of a NaN '
    'are not representable in the text format)',
    'node and element ids are integers of any sign with magnitude below 2**53 (the reader converts ids through float); '
    'the character-level Lean model has natural-number ids: objects with a negative id (about 20% of the cases) are judged by '
    'the oracle, by the comparison with a fresh object and by the _align_data model over integer ids (c04.align) only',
    'id arrays are handed over in integer dtypes that hold their values (int8 .. int64, uint8 .. uint32); uint64 is left out '
    'because numpy promotes uint64 next to a signed integer array to float64 (the file then carries ids like "1.0", which read '
    'back exactly but are not what the byte-level tie expects)',
    'polygon / polyhedron elements (object connectivity) and second-order types other than tet2 (the writer raises) are '
    'outside the property',
    'the mesh "with its data" of an object that has a history is its PUBLIC state at the time of write(): ids / data of '
    'fem_data.nodes, of every per-type block of fem_data.elements, and of every 2-D entry of nodal_data / elemental_data; an '
    'object whose public views disagree with each other (aggregate view of the elements or of an elemental variable != its '
    'per-type blocks, NODE variable != coordinates, a variable that does not cover the ids) is outside (stream `outside`); '
    'modifications that femio itself refuses (they raise before write) end the generated history before them',
]
TRUSTED = ['C04: parse (print v) = v for Python shortest-repr printing and float() (hypothesis of C04_roundtrip_printed)']

UCD_TYPES = ['line', 'spring', 'tri', 'quad', 'tet', 'tet2', 'pyr', 'prism', 'hex', 'hexprism']
NAMES = ['T', 'U', 'DISPLACEMENT', 'NodalSTRESS', 'tet', 'hex2', 'inf', 'E12', 'x_1', 'unit', 'ELEMENT', 'p', 'Mises',
         # round 6 (seeded C04-11): a name is any token without a comma or a blank, not an identifier
         'mode#1', 'damage#step3', 'sigma-xx', 'T[K]', 'a.b', 'u/L', 'p+', '#3', 'x!', '!x', 'q:r', '50%', "d'", 'f(x)']
ALNUM = 'ABCDEFGHIJKLMNOPQRSTUVWXYZabcdefghijklmnopqrstuvwxyz0123456789_'
SPECIAL = [float('nan'), 0.0, -0.0, 5e-324, -5e-324, 2.2250738585072014e-308, -2.225073858507201e-308, 1e300, -1e300,
           1e-300, 1.7976931348623157e308, -1.7976931348623157e308, float('inf'), float('-inf'), 0.1, 1 / 3, 1e22, 1e23,
           9007199254740993.0, 123456789.12345679, 1e16, 1e-5, 0.0001]


def bits(x):
    x = float(x)
    return 'nan' if x != x else struct.pack('<d', x).hex()


def ftok(x):
    """the numeral pandas' to_csv(na_rep='NaN') prints for a float64"""
    x = float(x)
    if x != x:
        return 'NaN'
    return repr(x)


def rand_float(rnd, special=.25):
    k = rnd.random()
    if k < special:
        return rnd.choice(SPECIAL)
    if k < .45:
        return float(rnd.randint(-50, 50))
    if k < .6:
        return rnd.randint(-10**6, 10**6) / 2**rnd.randint(0, 20)
    if k < .75:
        return float('%.12e' % rnd.uniform(-1e5, 1e5))
    x = struct.unpack('<d', struct.pack('<Q', rnd.getrandbits(64)))[0]
    return x


def is_alias(n):
    """femio renames a variable whose name is one of its alias keys (config.DICT_ALIASES, e.g. 'vf' -> 'VF',
    'disp' -> 'DISPLACEMENT') when it is stored: such reserved names are not arbitrary user names"""
    from femio import config
    return config.DICT_ALIASES.get(n, n) != n


def rand_names(rnd, k, taken=()):
    out = []
    while len(out) < k:
        n = rnd.choice(NAMES) if rnd.random() < .6 else \
            rnd.choice(ALNUM[:52]) + ''.join(rnd.choice(ALNUM) for _ in range(rnd.randint(0, 9)))
        if n in out or n in taken or n == 'NODE' or is_alias(n):
            continue
        out.append(n)
    return out


ORDER_CLASSES = ['mesh', 'asc', 'desc', 'reversed', 'rolled', 'shuffled', 'shuffled']


def private_order(rnd, ids, cls):
    ids = list(ids)
    if cls == 'asc':
        return sorted(ids)
    if cls == 'desc':
        return sorted(ids, reverse=True)
    if cls == 'reversed':
        return ids[::-1]
    if cls == 'rolled' and len(ids) > 1:
        k = rnd.randrange(1, len(ids))
        return ids[k:] + ids[:k]
    if cls == 'shuffled':
        rnd.shuffle(ids)
    return ids


def rename_some(rnd, vars_, aligned):
    """a share of the variables of one family is stored under a dict KEY (v['name'], the variable's name for the user and
    in the file) that differs from its FEMAttribute.name (v['attr']): a fresh name, the key of another variable of the
    family, or one name shared by several keys.  Such a variable is attached through `attrs[key] = attribute`,
    `attrs.update({key: attribute})` or `attrs.set_attribute_data(key, data, name=...)` (the last one takes the ids of
    the first attribute: only for variables in mesh order)"""
    keys = [v['name'] for v in vars_]
    shared = rand_names(rnd, 1, taken=keys)[0]
    for v in vars_:
        if rnd.random() < .65:
            others = [k for k in keys if k != v['name']]
            r = rnd.random()
            v['attr'] = shared if r < .45 else rnd.choice(others) if (r < .7 and others) else rand_names(rnd, 1, taken=keys)[0]
            if v['how'] != 'generate':
                v['how'] = rnd.choice(['setitem', 'update'] + (['set_attribute_data'] if aligned else []))


# ids that are not all positive ("arbitrary node / element ids"): zero, negative ids, negative ids next to large positive
# ones, ids at the limits of the 32-bit integers.  Everything that turns an id into an array position (a dense lookup table
# of size max+1 indexed with wrap-around, `ids - min`, searchsorted on a table sorted as unsigned), that uses -1 / 0 as
# "not found" / "no id", or that keeps ids in a 32-bit / unsigned integer is right on positive ids and wrong on these.
SIGNED_STYLES = ['through-zero', 'through-zero', 'through-zero', 'zero-based', 'negative-dense', 'negative-sparse', 'mirror',
                 'negative+large', 'int-limits']
INT_LIMITS = [-2**31 - 1, -2**31, -2**31 + 1, -2**16, -1, 0, 1, 2**16, 2**31 - 1, 2**31, 2**31 + 1, 2**32 - 1, 2**32, 2**32 + 1]


def signed_ids(rnd, n, style):
    """n distinct integer ids (any sign) of the given style, ascending"""
    if style == 'through-zero':         # a dense range -a .. b (b >= 0): every negative id -k lives next to the id max+1-k
        a = rnd.randint(1, max(1, n - 1))
        ids = range(-a, n - a)
    elif style == 'zero-based':
        ids = range(n)
    elif style == 'negative-dense':
        a = rnd.choice([0, 0, 1, 5, 1000])
        ids = range(-n - a, -a)
    elif style == 'negative-sparse':
        ids = set(rnd.sample(range(-50 * n - 1, 50 * n + 2), n))
        ids = (sorted(ids - {-1, 0})[:n - 2] + [-1, 0]) if (n > 2 and rnd.random() < .5) else ids
    elif style == 'mirror':             # k and -k both present (and 0 when n is odd)
        ids = [sg * k for k in rnd.sample(range(1, 3 * n + 2), n // 2) for sg in (1, -1)] + ([0] if n % 2 else [])
    elif style == 'negative+large':     # a few negative ids next to ids ~1e6 / ~2e9 (a dense table would be huge, a sparse guard is taken)
        k = rnd.randint(1, max(1, n - 1))
        base = rnd.choice([10**6, 2 * 10**9, 2**31 - n - 1])
        ids = rnd.sample(range(-3 * n, 0), k) + rnd.sample(range(base, base + 2 * n + 1), n - k)
    elif style == 'int-limits':
        lim = rnd.sample(INT_LIMITS, min(n, rnd.randint(1, 4)))
        ids = set(lim)
        while len(ids) < n:
            ids.add(rnd.choice(lim) + rnd.randint(-n, n))
    else:
        raise ValueError(style)
    ids = sorted(set(int(i) for i in ids))
    assert len(ids) == n, (style, n, ids)
    return ids


def resign(rnd, m):
    """node and / or element ids of the mesh replaced by ids of a signed style through a MONOTONE map (the storage order
    class of the mesh - ascending, descending, midshuf, swap2 ... - is kept)"""
    which = rnd.choice(['nodes', 'elems', 'both', 'both'])
    label = []
    if which in ('nodes', 'both'):
        old = sorted(i for i, _ in m['nodes'])
        st = rnd.choice(SIGNED_STYLES)
        mp = dict(zip(old, signed_ids(rnd, len(old), st)))
        m['nodes'] = [(mp[i], p) for i, p in m['nodes']]
        m['blocks'] = {t: [(e, [mp[x] for x in c]) for e, c in b] for t, b in m['blocks'].items()}
        label.append('n:' + st)
    if which in ('elems', 'both'):
        old = sorted(e for b in m['blocks'].values() for e, _ in b)
        st = rnd.choice(SIGNED_STYLES)
        mp = dict(zip(old, signed_ids(rnd, len(old), st)))
        m['blocks'] = {t: [(mp[e], c) for e, c in b] for t, b in m['blocks'].items()}
        label.append('e:' + st)
    m['id_style'] = m['id_style'] + '/' + ','.join(label)
    return m


# (uint64 is left out on purpose: numpy promotes uint64 together with any signed integer to float64, so an object that holds one
# uint64 id array next to an int64 one has float ids in its aggregate views and "1.0" in its file - it still reads back
# exactly, but the byte-level tie would flag a numpy rule, not femio)
INT_DTYPES = ['int64', 'int32', 'int16', 'int8', 'uint32', 'uint16', 'uint8']


def fitting_dtype(rnd, ids):
    lo, hi = min(ids), max(ids)
    return rnd.choice([d for d in INT_DTYPES if np.iinfo(d).min <= lo and hi <= np.iinfo(d).max])


def id_dtypes(rnd, nids, eids):
    """integer dtypes of the id arrays the caller hands to femio (every one can hold its ids): node ids, connectivity,
    element ids, own ids of the nodal / elemental variables"""
    if rnd.random() < .5:        # one non-default dtype for everything it fits
        d = fitting_dtype(rnd, nids + eids)
        return {k: d for k in ('nodes', 'conn', 'elems', 'nodal', 'elem')}
    return {'nodes': fitting_dtype(rnd, nids), 'conn': fitting_dtype(rnd, nids), 'elems': fitting_dtype(rnd, eids),
            'nodal': fitting_dtype(rnd, nids), 'elem': fitting_dtype(rnd, eids)}


P_SIGNED, P_SIGNED_OWN, P_DTYPE, P_SQUARE = .22, .4, .25, .1


def square_mesh(rnd, types):
    """a mesh with as many elements as nodes (a length alone does not tell a nodal from an elemental table)"""
    need = max(G.ARITY[t] for t in types)
    for _ in range(60):
        k = rnd.randint(max(need, len(types)), need + 6)
        m = G.gen_combinatorial(rnd, types=types, n_nodes=k, max_elems=k)
        if sum(len(b) for b in m['blocks'].values()) == k:
            return m
    return m


def gen_case(rnd, own_orders=False):
    """-> JSON-able description from which `build` makes the FEMData; own_orders: every variable keeps its rows in a
    private id order, and at least one family (nodal / elemental) has two or more variables"""
    r = rnd.random()
    if r < .12:
        types = ['tet', 'tet2']
    elif r < .45:
        types = [rnd.choice(UCD_TYPES)]
    else:
        types = rnd.sample(UCD_TYPES, rnd.randint(2, 3))
    if rnd.random() < P_SQUARE:
        m = square_mesh(rnd, types)
    else:
        m = G.gen_combinatorial(rnd, types=types, max_elems=max(len(types), rnd.choice([1, 3, 6, 12])))
        for _ in range(20 if own_orders else 0):      # private orders need a few rows to differ from each other
            if sum(len(b) for b in m['blocks'].values()) >= 4:
                break
            m = G.gen_combinatorial(rnd, types=types, max_elems=max(len(types), rnd.choice([6, 9, 12])))
    if rnd.random() < (P_SIGNED_OWN if own_orders else P_SIGNED):
        m = resign(rnd, m)
    sp = rnd.choice([0, .05, .3])
    nodes = [[i, [rand_float(rnd, sp) if sp else float(v) for v in p]] for i, p in m['nodes']]
    nids = [i for i, _ in nodes]
    blocks = {t: [[e, list(c)] for e, c in b] for t, b in m['blocks'].items()}
    # elements.ids of the FEMData: one block -> storage order, several -> ascending
    eids = [e for b in blocks.values() for e, _ in b]
    if len(blocks) > 1:
        eids.sort()
    n_nv = rnd.choice([0, 0, 1, 2, 3, 4])
    n_ev = rnd.choice([0, 1, 1, 2, 3, 4])
    if own_orders:
        n_nv, n_ev = rnd.choice([(2, 0), (0, 2), (2, 2), (3, 1), (1, 3), (4, 2), (2, 4), (3, 3)])
    pop_node = n_nv == 0 and rnd.random() < .6
    widths = [1, 1, 3, 3, 6, 2, 4, 5, 7, 9]

    def var(name, ids, how):
        w = rnd.choice(widths)
        own = list(ids)
        if own_orders:
            own = private_order(rnd, ids, rnd.choice(ORDER_CLASSES))
        return {'name': name, 'ids': own, 'how': how, 'data': [[rand_float(rnd) for _ in range(w)] for _ in own]}
    nv = [var(n, nids, 'update_data') for n in rand_names(rnd, n_nv)]
    ev = [var(n, eids, rnd.choice(['update_data', 'update_data', 'generate'] if own_orders else ['update_data', 'generate']))
          for n in rand_names(rnd, n_ev)]
    if rnd.random() < .4:
        rename_some(rnd, nv, aligned=not own_orders)
        rename_some(rnd, ev, aligned=not own_orders)
    case = {'nodes': nodes, 'blocks': blocks, 'nodal_vars': nv, 'elem_vars': ev, 'pop_node': pop_node,
            'kind': m['kind'], 'order': m['order'], 'id_style': m['id_style']}
    if rnd.random() < P_DTYPE:
        case['id_dtypes'] = id_dtypes(rnd, nids, eids)
    return case


def enc_f(x):
    return 'nan' if x != x else float(x).hex()


def dec_f(s):
    return float('nan') if s == 'nan' else float.fromhex(s) if isinstance(s, str) else float(s)


def to_json(case):
    """floats as hex strings (NaN / inf are not JSON)"""
    def fl(rows):
        return [[enc_f(x) for x in r] for r in rows]
    return {**case, 'nodes': [[i, [enc_f(x) for x in p]] for i, p in case['nodes']],
            'nodal_vars': [{**v, 'data': fl(v['data'])} for v in case['nodal_vars']],
            'elem_vars': [{**v, 'data': fl(v['data'])} for v in case['elem_vars']]}


def from_json(j):
    def fl(rows):
        return [[dec_f(x) for x in r] for r in rows]
    return {**j, 'nodes': [[i, [dec_f(x) for x in p]] for i, p in j['nodes']],
            'nodal_vars': [{**v, 'data': fl(v['data'])} for v in j['nodal_vars']],
            'elem_vars': [{**v, 'data': fl(v['data'])} for v in j['elem_vars']]}


def attach(fd, fam, v, keep=None, idt=None):
    """store the variable under the KEY v['name'] of fd.nodal_data (fam 'nodal') / fd.elemental_data (fam 'elem'); its
    FEMAttribute.name is v['attr'] (default: the key).  keep: the arrays handed to femio are recorded (caller-side aliases);
    idt: integer dtype of the id array handed to femio"""
    from femio import FEMAttribute, FEMElementalAttribute
    attrs = fd.nodal_data if fam == 'nodal' else fd.elemental_data
    if fam == 'nodal':
        def make(name, ids, data):
            return FEMAttribute(name, ids=ids, data=data)
    else:
        def make(name, ids, data):
            return FEMElementalAttribute(name, data, ids=ids)
    key, attr, ids, data = v['name'], v.get('attr', v['name']), np.array(v['ids'], dtype=idt), np.array(v['data'], dtype=float)
    if keep is not None:
        keep[(fam, key)] = data
    how = v['how']
    if how == 'set_attribute_data' and not (len(attrs) and [int(i) for i in list(attrs.values())[0].ids] == v['ids']
                                            and attrs.are_same_lengths()):
        how = 'setitem'      # set_attribute_data binds the rows to the ids of the first attribute
    if how == 'update_data':
        assert attr == key
        attrs.update_data(ids, {key: data})
    elif how == 'generate':
        attrs[key] = fd.elements.generate_elemental_attribute(attr, ids, data)
    elif how == 'setitem':
        attrs[key] = make(attr, ids, data)
    elif how == 'update':
        attrs.update({key: make(attr, ids, data)})
    elif how == 'set_attribute_data':
        attrs.set_attribute_data(key, data, name=attr)
    else:
        raise ValueError(how)


def build(case, keep=None):
    """the FEMData of the case AS CONSTRUCTED (the history of the case, if any, is applied by `prepare`)"""
    from femio import FEMData, FEMAttribute, FEMElementalAttribute
    dt = case.get('id_dtypes') or {}
    xyz = np.array([p for _, p in case['nodes']], dtype=float)
    conn = {t: np.array([c for _, c in b], dtype=dt.get('conn')) for t, b in case['blocks'].items()}
    nodes = FEMAttribute('NODE', ids=np.array([i for i, _ in case['nodes']], dtype=dt.get('nodes')), data=xyz, silent=True)
    el = {t: FEMAttribute(t, ids=np.array([e for e, _ in b], dtype=dt.get('elems')), data=conn[t], silent=True)
          for t, b in case['blocks'].items()}
    fd = FEMData(nodes=nodes, elements=FEMElementalAttribute('ELEMENT', G.insertion_order(el)))
    if keep is not None:
        keep[('nodes', None)] = xyz
        keep.update({('conn', t): a for t, a in conn.items()})
    for v in case['nodal_vars']:
        attach(fd, 'nodal', v, keep, dt.get('nodal'))
    for v in case['elem_vars']:
        attach(fd, 'elem', v, keep, dt.get('elem'))
    if case['pop_node']:
        fd.nodal_data.pop('NODE')
    elif case.get('node_pos'):
        # NODE is not the first nodal variable (an object read from a file without NODE block gets it appended)
        items = [(k, v) for k, v in fd.nodal_data.items() if k != 'NODE']
        items.insert(case['node_pos'], ('NODE', fd.nodes))
        fd.nodal_data.reset()
        for k, v in items:
            fd.nodal_data[k] = v
    return fd


# ------------------------------------------------------------------ histories: the object is modified between construction and write
#
# case['hist'] = {'via_file': bool          the object that is written was itself READ from a UCD file (write after read)
#                 'pre_write': None | 'same' | 'other'   the object has already been written once before it is modified
#                 'mods': [op ...]          modifications through public means, in this order (concrete arguments, JSON)
#                 'writes': 1 | 2           the final state is written once / twice ('second': other file | same file, overwrite=True)}
# The expected content of the file is that of the object's public state (`ids` / `data` views) just before write().

DERIVATIONS = ['to_first_order', 'to_first_order', 'resolve_degeneracy', 'to_surface']


class HistoryError(Exception):
    """a step BEFORE the final write raised or does not apply: not the subject of C04 (the case is skipped and counted)"""


def _fmat(rows):
    return np.array([[dec_f(x) for x in r] for r in rows], dtype=float)


def _mat(rows, fam):
    return np.array(rows, dtype=int) if fam == 'conn' else _fmat(rows)


def _val(x, fam):
    return int(x) if fam == 'conn' else dec_f(x)


def _attr(fd, fam, key):
    if fam == 'nodes':
        return fd.nodes
    if fam == 'nodal':
        return fd.nodal_data[key]
    if fam == 'elem':
        return fd.elemental_data[key]
    if fam == 'conn':
        return fd.elements       # one element type: the aggregate view is the block's own array
    raise ValueError(fam)


def _view(fd, op):
    """the array a user gets hold of (several public spellings of the same thing)"""
    fam, key, via = op['fam'], op.get('key'), op.get('via', 'data')
    if via == 'get_attribute_data' and fam in ('nodal', 'elem'):
        return (fd.nodal_data if fam == 'nodal' else fd.elemental_data).get_attribute_data(key)
    a = _attr(fd, fam, key)
    return a.values if (via == 'values' and hasattr(a, 'values') and not isinstance(a, dict)) else a.data


def _edit(arr, op):
    fam, how = op['fam'], op['how']
    if how == 'cell':
        for r, c, x in op['cells']:
            arr[r, c] = _val(x, fam)
    elif how == 'row=':
        arr[op['row']] = [_val(x, fam) for x in op['vals']]
    elif how == 'row+=':
        arr[op['row']] += np.array([_val(x, fam) for x in op['vals']])
    elif how == 'all=':
        arr[...] = _mat(op['data'], fam)
    else:
        raise ValueError(how)


def apply_op(fd, op, keep):
    from femio import FEMAttribute
    o, fam, key = op['op'], op.get('fam'), op.get('key')
    if o == 'inplace':
        arr = _view(fd, op)
        if arr.flags.writeable:
            _edit(arr, op)
        else:           # numpy refuses (arrays that came out of a pandas frame are read-only): copy, edit, assign
            arr = np.array(arr)
            _edit(arr, op)
            _attr(fd, fam, key).data = arr
            return 'array returned by .data is read-only: copied, edited, assigned through the setter'
    elif o == 'caller':             # the array the caller handed to femio when the object was constructed
        arr = keep.get((fam, key))
        if arr is None or not arr.flags.writeable:
            raise HistoryError('no caller array')
        _edit(arr, op)
    elif o == 'setter':
        arr = _mat(op['data'], fam)
        _attr(fd, fam, key).data = arr
        if op.get('alias'):         # ... and goes on using its array
            _edit(arr, {**op['alias'], 'fam': fam})
    elif o == 'loc':
        a, d, sel, via = _attr(fd, fam, key), _fmat(op['data']), op['sel'], op['via']
        if via == 'loc':
            a.loc[sel].data = d
        elif via == 'loc-scalar':
            a.loc[sel[0]].data = d
        elif via == 'iloc':
            a.iloc[sel].data = d
        elif via == 'iloc-slice':
            a.iloc[sel[0]:sel[1]].data = d
        else:
            raise ValueError(via)
    elif o == 'update':
        ids, d = np.array(op['ids']), _fmat(op['data'])
        if op['via'] == 'update_data':
            attrs = fd.elemental_data if fam == 'elem' else fd.nodal_data
            attrs.update_data(ids, {'NODE' if fam == 'nodes' else key: d}, allow_overwrite=True)
        else:
            _attr(fd, fam, key).update(ids, d, allow_overwrite=True)
    elif o == 'overwrite':
        attrs = fd.elemental_data if fam == 'elem' else fd.nodal_data
        if op.get('ids') is None:
            attrs.overwrite(key, _fmat(op['data']))
        else:
            attrs.overwrite(key, _fmat(op['data']), ids=np.array(op['ids']))
    elif o == 'pop':
        (fd.elemental_data if fam == 'elem' else fd.nodal_data).pop(key)
    elif o == 'add':
        attach(fd, fam, from_json_var(op['var']), keep)
    elif o == 'elements.update':     # replace whole per-type blocks (same element ids; rows re-ordered / re-connected)
        fd.elements.update({t: FEMAttribute(t, ids=np.array(b['ids']), data=np.array(b['conn']), silent=True)
                            for t, b in op['blocks'].items()})
    elif o == 'elem.update':         # the same for the per-type blocks of an elemental variable
        a = fd.elemental_data[key]
        a.update({t: FEMAttribute(a.name, ids=np.array(b['ids']), data=_fmat(b['data']), silent=True)
                  for t, b in op['blocks'].items()})
    elif o == 'renumber-nodes':
        m = {int(a): int(b) for a, b in op['map']}
        seen = set()
        for a in [fd.nodes] + list(fd.nodal_data.values()):
            if id(a) not in seen:
                seen.add(id(a))
                a.ids = np.array([m[int(i)] for i in a.ids])
        new = {t: np.array([[m[int(n)] for n in row] for row in b.data]) for t, b in fd.elements.items()}
        if op['conn_via'] == 'setter' and len(new) == 1:
            fd.elements.data = list(new.values())[0]
        else:
            fd.elements.update({t: FEMAttribute(t, ids=np.array(fd.elements[t].ids), data=c, silent=True)
                                for t, c in new.items()})
    elif o == 'renumber-elements':
        m = {int(a): int(b) for a, b in op['map']}
        fd.elements.update({t: FEMAttribute(t, ids=np.array([m[int(i)] for i in b.ids]), data=np.array(b.data), silent=True)
                            for t, b in fd.elements.items()})
        for k, v in list(fd.elemental_data.items()):
            fd.elemental_data.overwrite(k, np.array(v.data, dtype=float), ids=np.array([m[int(i)] for i in v.ids]))
    else:
        raise ValueError(o)
    return None


def from_json_var(v):
    return {**v, 'data': [[dec_f(x) for x in r] for r in v['data']]}


def _is2d(a):
    return len(np.shape(a.data)) == 2


def _one_block(a):
    return not isinstance(a, dict) or a.get_n_element_type() == 1


def _hexrows(rnd, n, w):
    return [[enc_f(rand_float(rnd)) for _ in range(w)] for _ in range(n)]


def _some_ids(rnd, ids):
    k = rnd.randint(1, min(len(ids), rnd.choice([1, 2, 3, len(ids)])))
    return rnd.sample(ids, k)


def pick_op(rnd, fd, keep, allow_caller):
    """one modification with concrete arguments, chosen by looking at the object's current public state; every kind
    leaves all public views of the object in agreement on the unchanged tree (`incoherent`)"""
    nod = [('nodal', k) for k, v in fd.nodal_data.items() if _is2d(v) and v is not fd.nodes]
    ele = [('elem', k) for k, v in fd.elemental_data.items() if _is2d(v) and _one_block(v)]
    node_paths = [('nodes', None)] + ([('nodal', 'NODE')] if fd.nodal_data.data.get('NODE') is fd.nodes else [])
    single = fd.elements.get_n_element_type() == 1
    kind = rnd.choice(['inplace'] * 7 + ['setter'] * 2 + ['loc'] * 2 + ['update'] * 2 + ['overwrite', 'caller', 'dict', 'elements',
                                                                                           'elem.update', 'renumber'])
    floats = [rnd.choice(node_paths)] * 2 + nod * 2 + ele * 2

    def shape(t):
        return np.shape(_attr(fd, *t).data)
    if kind in ('inplace', 'caller'):
        t = rnd.choice(floats + ([('conn', None)] if single else []))
        if kind == 'caller':
            if not allow_caller:
                return None
            t = ('nodes', None) if t[1] == 'NODE' else (('conn', list(fd.elements.keys())[0]) if t[0] == 'conn' else t)
            if keep.get(t) is None:
                return None
            n, w = keep[t].shape
        else:
            n, w = shape(t)
        op = {'op': kind, 'fam': t[0], 'key': t[1], 'how': rnd.choice(['cell', 'cell', 'row=', 'row+=', 'all='])}
        if kind == 'inplace':
            op['via'] = rnd.choice(['data', 'data', 'values', 'get_attribute_data'])
        if t[0] == 'conn':
            nids = [int(i) for i in fd.nodes.ids]
            op['how'] = 'cell' if op['how'] in ('row+=', 'all=') else op['how']
            if op['how'] == 'cell':
                op['cells'] = [[rnd.randrange(n), rnd.randrange(w), rnd.choice(nids)] for _ in range(rnd.randint(1, 2))]
            else:
                op.update(row=rnd.randrange(n), vals=rnd.sample(nids, w))
            return op
        if op['how'] == 'cell':
            op['cells'] = [[rnd.randrange(n), rnd.randrange(w), enc_f(rand_float(rnd, .5))] for _ in range(rnd.randint(1, 3))]
        elif op['how'] in ('row=', 'row+='):
            op.update(row=rnd.randrange(n), vals=[enc_f(rand_float(rnd) if op['how'] == 'row=' else float(rnd.randint(-3, 3)) / 4)
                                                  for _ in range(w)])
        else:
            op['data'] = _hexrows(rnd, n, w)
        return op
    if kind == 'setter':
        t = rnd.choice(floats + ([('conn', None)] if single else []))
        n, w = shape(t)
        if t[0] == 'conn':
            b = list(fd.elements.values())[0]
            rows = [[int(x) for x in r] for r in b.data]
            rnd.shuffle(rows)
            return {'op': 'setter', 'fam': 'conn', 'key': None, 'data': rows}
        if t[0] != 'nodes' and t[1] != 'NODE' and rnd.random() < .4:
            w = rnd.choice([1, 2, 3, 5, 8])      # the width of a variable may change
        op = {'op': 'setter', 'fam': t[0], 'key': t[1], 'data': _hexrows(rnd, n, w)}
        if rnd.random() < .4:
            op['alias'] = {'how': 'cell', 'cells': [[rnd.randrange(n), rnd.randrange(w), enc_f(rand_float(rnd, .5))]]}
        return op
    if kind == 'loc':
        t = rnd.choice([rnd.choice(node_paths)] + nod * 2 + [('elem', k) for _, k in ele if not isinstance(fd.elemental_data[k], dict)])
        a = _attr(fd, *t)
        n, w = shape(t)
        ids = [int(i) for i in a.ids]
        via = rnd.choice(['loc', 'loc', 'loc-scalar', 'iloc', 'iloc-slice'])
        if via == 'loc':
            sel = _some_ids(rnd, ids)
        elif via == 'loc-scalar':
            sel = [rnd.choice(ids)]
        elif via == 'iloc':
            sel = rnd.sample(range(n), rnd.randint(1, min(n, 3)))
        else:
            i = rnd.randrange(n)
            sel = [i, rnd.randint(i + 1, n)]
        k = sel[1] - sel[0] if via == 'iloc-slice' else len(sel)
        return {'op': 'loc', 'fam': t[0], 'key': t[1], 'via': via, 'sel': sel, 'data': _hexrows(rnd, k, w)}
    if kind == 'update':
        t = rnd.choice([rnd.choice(node_paths)] + nod * 2 + ele * 2)
        via = rnd.choice(['attr.update', 'update_data'])
        if t == ('nodal', 'NODE'):
            t, via = ('nodes', None), 'update_data'
        elif t[0] == 'nodes':
            via = 'attr.update'
        ids = _some_ids(rnd, [int(i) for i in _attr(fd, *t).ids])
        return {'op': 'update', 'fam': t[0], 'key': t[1], 'via': via, 'ids': ids, 'data': _hexrows(rnd, len(ids), shape(t)[1])}
    if kind == 'overwrite':
        cand = nod + ele + [('elem', k) for k, v in fd.elemental_data.items() if _is2d(v) and not _one_block(v)]
        if not cand:
            return None
        t = rnd.choice(cand)
        a = _attr(fd, *t)
        n, w = shape(t)
        ids = None
        if not _one_block(a) or rnd.random() < .5:
            ids = private_order(rnd, [int(i) for i in a.ids], rnd.choice(ORDER_CLASSES))
        if rnd.random() < .3:
            w = rnd.choice([1, 2, 3, 6])
        return {'op': 'overwrite', 'fam': t[0], 'key': t[1], 'ids': ids, 'data': _hexrows(rnd, n, w)}
    if kind == 'dict':
        fam = rnd.choice(['nodal', 'elem'])
        attrs = fd.nodal_data if fam == 'nodal' else fd.elemental_data
        keys = [k for k in attrs.keys() if k != 'NODE']
        if keys and rnd.random() < .5:
            return {'op': 'pop', 'fam': fam, 'key': rnd.choice(keys)}
        ids = [int(i) for i in (fd.nodes.ids if fam == 'nodal' else fd.elements.ids)]
        name = rand_names(rnd, 1, taken=list(attrs.keys()))[0]
        how = rnd.choice(['update_data', 'setitem', 'update'] + (['generate'] if fam == 'elem' else []))
        own = private_order(rnd, ids, rnd.choice(ORDER_CLASSES))
        return {'op': 'add', 'fam': fam, 'key': name,
                'var': {'name': name, 'ids': own, 'how': how, 'data': _hexrows(rnd, len(ids), rnd.choice([1, 2, 3, 4]))}}
    if kind == 'elements':
        ts = rnd.sample(list(fd.elements.keys()), rnd.randint(1, min(2, len(fd.elements.keys()))))
        nids = [int(i) for i in fd.nodes.ids]
        blocks = {}
        for t in ts:
            b = fd.elements[t]
            rows = [[int(i), [int(x) for x in c]] for i, c in zip(b.ids, b.data)]
            rnd.shuffle(rows)
            if rnd.random() < .6:
                r = rnd.choice(rows)
                r[1] = rnd.sample(nids, len(r[1]))
            blocks[t] = {'ids': [i for i, _ in rows], 'conn': [c for _, c in rows]}
        return {'op': 'elements.update', 'blocks': blocks}
    if kind == 'elem.update':
        cand = [k for k, v in fd.elemental_data.items() if isinstance(v, dict) and _is2d(v)]
        if not cand:
            return None
        key = rnd.choice(cand)
        a = fd.elemental_data[key]
        w = np.shape(a.data)[1]
        blocks = {}
        for t in rnd.sample(list(a.keys()), rnd.randint(1, len(a.keys()))):
            ids = [int(i) for i in a[t].ids]
            rnd.shuffle(ids)
            blocks[t] = {'ids': ids, 'data': _hexrows(rnd, len(ids), w)}
        return {'op': 'elem.update', 'key': key, 'blocks': blocks}
    if kind == 'renumber':
        if rnd.random() < .5:
            ids = [int(i) for i in fd.nodes.ids]
            if any(not isinstance(v, dict) and sorted(int(i) for i in v.ids) != sorted(ids) for v in fd.nodal_data.values()):
                return None
            o = 'renumber-nodes'
        else:
            ids = [int(i) for i in fd.elements.ids]
            if any(not _is2d(v) for v in fd.elemental_data.values()):
                return None
            o = 'renumber-elements'
        style = rnd.choice(['rotate', 'rotate', 'offset', 'reverse-rank'])
        s = sorted(ids)
        if style == 'rotate':       # the SAME id set bound to other rows: nothing that is keyed on ids may survive
            k = rnd.randrange(1, len(s)) if len(s) > 1 else 0
            m = dict(zip(s, s[k:] + s[:k]))
        elif style == 'offset':
            # ... also through zero: one id becomes 0 and the smaller ones negative / all ids negative
            d = rnd.choice([1, 7, 1000, -1, -rnd.choice(s), -rnd.choice(s), -max(s) - rnd.choice([1, 2, 1000])])
            m = {i: i + d for i in s}
        else:
            m = dict(zip(s, s[::-1]))
        return {'op': o, 'style': style, 'map': [[i, m[i]] for i in ids], 'conn_via': rnd.choice(['setter', 'update'])}
    return None


def start_object(ctx, case, keep):
    """the object at the start of the history: as constructed, or as read from the UCD file of the constructed object"""
    from femio import FEMData
    h = case.get('hist') or {}
    d = ctx.tmp / 'c04'
    d.mkdir(exist_ok=True)
    for f in d.iterdir():
        f.unlink()
    fd, err = real(build, case, keep)
    if err:
        raise RuntimeError('harness: could not build the FEMData: ' + err)
    if h.get('via_file'):
        _, err = real(fd.write, 'ucd', d / 'first.inp')
        fd, err = (None, err) if err else real(FEMData.read_files, 'ucd', d / 'first.inp')
        if err:
            raise HistoryError('write / read before the history raises ' + err)
        keep.clear()
    def earlier_write(o):
        o.c04_state_at_earlier_write, _ = real(snapshot, o)
        _, err = real(o.write, 'ucd', d / ('mesh.inp' if h['pre_write'] == 'same' else 'earlier.inp'))
        if err:
            raise HistoryError('the earlier write raises ' + err)
    on_parent = bool(h.get('derive') and h.get('pre_write') and h.get('pre_on') == 'parent')
    if on_parent:
        earlier_write(fd)       # the PARENT has been written before the object is derived from it
    if h.get('derive'):
        # the object that is written is DERIVED from the constructed one (it may carry tables built for its parent and
        # share arrays / attribute objects with it; the parent stays alive)
        parent = fd
        fd, err = real(getattr(parent, h['derive']))
        if err:
            raise HistoryError(f'{h["derive"]}() before the history raises ' + err)
        fd.c04_parent = parent
        if on_parent:
            fd.c04_state_at_earlier_write = parent.c04_state_at_earlier_write
        keep.clear()
    if h.get('pre_write') and not on_parent:
        earlier_write(fd)
    return fd


def prepare(ctx, case):
    """the object just before the final write"""
    keep = {}
    fd = start_object(ctx, case, keep)
    for k, op in enumerate((case.get('hist') or {}).get('mods', [])):
        _, err = real(apply_op, fd, op, keep)
        if err:
            raise HistoryError(f'modification {k} ({op["op"]}) raises {err}')
    return fd


def gen_history(ctx, rnd, case):
    """adds case['hist']; the modifications are chosen against a live object so that their arguments are concrete.
    -> that object in its final state (= what `prepare(ctx, case)` rebuilds from the description), or None"""
    h = {'via_file': rnd.random() < .14, 'pre_write': rnd.choice([None, None, None, 'same', 'other']),
         'derive': rnd.choice(DERIVATIONS) if rnd.random() < .16 else None, 'pre_on': rnd.choice(['parent', 'object']),
         'writes': rnd.choice([1, 1, 2]), 'second': rnd.choice(['other', 'same-overwrite']), 'mods': []}
    case['hist'] = h
    n_ops = rnd.choice([0, 1, 1, 2, 2, 3, 4])
    if n_ops == 0:
        h['writes'] = 2
    keep = {}
    try:
        fd = start_object(ctx, case, keep)
    except HistoryError:
        h['via_file'] = False
        h['pre_write'] = None
        h['derive'] = None
        return None
    tries = 0
    while len(h['mods']) < n_ops and tries < 12:
        tries += 1
        op, err = real(pick_op, rnd, fd, keep, not h['via_file'] and not h['derive'])
        if err:
            ctx.count('history: generator could not look at the object (' + err.split(':')[0] + ')')
            return None
        if op is None:
            continue
        note, err = real(apply_op, fd, op, keep)
        if err:     # femio refuses this modification in the current state: the history ends before it
            ctx.count(f'history: modification refused by femio, dropped ({hist_label(op)}: {err[:60]})')
            return None
        if note:
            ctx.count('history: ' + note)
        h['mods'].append(op)
    return fd


def hist_label(op):
    o = op['op']
    if o in ('inplace', 'caller'):
        return f'{o}:{op["fam"]}:{op["how"]}'
    if o in ('setter', 'overwrite'):
        return f'{o}:{op["fam"]}' + ('+alias' if op.get('alias') else '') + ('+ids' if op.get('ids') else '')
    if o in ('loc', 'update'):
        return f'{o}:{op["fam"]}:{op["via"]}'
    if o in ('pop', 'add'):
        return f'{o}:{op["fam"]}'
    if o.startswith('renumber'):
        return f'{o}:{op["style"]}'
    return o


# ------------------------------------------------------------------ model input = what the writer looks at

def _rows(a):
    return [[float(x) for x in r] for r in a.data]


def snapshot(fd):
    """the public state of the object the property talks about, copied out of the object (plain Python values): `ids` /
    `data` of the nodes, of every per-type element block (canonical type order, as `elements.items()` gives them), the
    aggregate element ids, and of every 2-D nodal / elemental variable in dict order"""
    def tabs(attrs):
        return [[k, [int(i) for i in v.ids], _rows(v)] for k, v in attrs.items() if len(np.shape(v.data)) == 2]
    return {'nodes': [[int(i) for i in fd.nodes.ids], _rows(fd.nodes)],
            'blocks': {t: [[int(i), [int(n) for n in c]] for i, c in zip(b.ids, b.data)] for t, b in fd.elements.items()},
            'eids': [int(i) for i in fd.elements.ids],
            'nodal': tabs(fd.nodal_data), 'elem': tabs(fd.elemental_data)}


def has_negative_id(snap):
    """the Lean model of the file has natural-number ids (Tok.n): an object with a negative id is judged by the oracle and
    by the comparison with a fresh object only (`signed ids: ...` counts), and its _align_data step by `c04.align`"""
    return min([0] + snap['nodes'][0] + snap['eids'] + [n for b in snap['blocks'].values() for _, c in b for n in c]) < 0


def snap_bits(snap):
    def tb(t):
        return [t[0], t[1], [[bits(x) for x in r] for r in t[2]]]
    return {'nodes': [snap['nodes'][0], [[bits(x) for x in r] for r in snap['nodes'][1]]], 'blocks': snap['blocks'],
            'eids': snap['eids'], 'nodal': [tb(t) for t in snap['nodal']], 'elem': [tb(t) for t in snap['elem']]}


def incoherent(fd, snap):
    """-> None, or why the public views of the object do not describe ONE mesh (aggregate view of the elements / of an
    elemental variable != its per-type blocks, NODE variable != coordinates, a 2-D variable that does not cover the
    mesh's ids): such an object is outside the property (separately labelled stream, nothing is reported)"""
    by_id = {e: c for b in snap['blocks'].values() for e, c in b}
    n = sum(len(b) for b in snap['blocks'].values())
    order = [e for b in snap['blocks'].values() for e, _ in b]
    if len(snap['blocks']) > 1:
        order.sort()
    if len(by_id) != n or snap['eids'] != order:
        return 'element ids of the aggregate view != ids of the per-type blocks'
    agg = {int(i): [int(x) for x in c] for i, c in zip(fd.elements.ids, fd.elements.data)}
    if agg != by_id:
        return 'connectivity of the aggregate view != per-type blocks'
    for k, v in fd.elemental_data.items():
        if isinstance(v, dict) and len(np.shape(v.data)) == 2:
            blk = {int(i): tuple(bits(x) for x in r) for b in v.values() for i, r in zip(b.ids, b.data)}
            if blk != {int(i): tuple(bits(x) for x in r) for i, r in zip(v.ids, v.data)}:
                return 'aggregate view of an elemental variable != its per-type blocks'
    nb = snap_bits(snap)
    for k, ids, rows in nb['nodal']:
        if k == 'NODE' and dict(zip(ids, map(tuple, rows))) != dict(zip(nb['nodes'][0], map(tuple, nb['nodes'][1]))):
            return 'NODE variable != coordinates'
        if sorted(ids) != sorted(snap['nodes'][0]):
            return 'nodal variable whose ids are not the node ids'
    for k, ids, rows in snap['elem']:
        if sorted(ids) != sorted(snap['eids']):
            return 'elemental variable whose ids are not the element ids'
    if len(set(snap['nodes'][0])) != len(snap['nodes'][0]):
        return 'duplicate node ids'
    return None


def content_of(snap):
    """the snapshot as a case description: `build` makes an independently constructed FRESH object with the same content"""
    keys = [k for k, _, _ in snap['nodal']]
    return {'nodes': [[i, list(p)] for i, p in zip(*snap['nodes'])], 'blocks': snap['blocks'],
            'nodal_vars': [{'name': k, 'ids': ids, 'how': 'setitem', 'data': rows} for k, ids, rows in snap['nodal'] if k != 'NODE'],
            'elem_vars': [{'name': k, 'ids': ids, 'how': 'setitem', 'data': rows} for k, ids, rows in snap['elem']],
            'pop_node': 'NODE' not in keys, 'node_pos': keys.index('NODE') if 'NODE' in keys else None,
            'kind': 'snapshot', 'order': '-', 'id_style': '-'}


def model_fem(snap):
    """protocol encoding of the FEMData as the writer sees it (from a snapshot of its public state): every 2-D variable
    with its own ids and rows"""
    t = [C.enc_list(zip(*snap['nodes']), lambda r: f'{r[0]} {C.enc_list(r[1], ftok)}')]
    blocks = [(G.ELEMENT_TYPES.index(k), v) for k, v in snap['blocks'].items()]
    t.append(C.enc_list(blocks, lambda b: f'{b[0]} ' + C.enc_list(b[1], lambda e: f'{e[0]} {C.enc_list(e[1])}')))

    def tabs(vs):
        return C.enc_list(vs, lambda v: ' '.join([
            C.esc(v[0]), str(len(v[2][0]) if v[2] else 0), C.enc_list(v[1]), C.enc_list(v[2], lambda r: C.enc_list(r, ftok))]))
    t.append(tabs(snap['nodal']))
    t.append(tabs(snap['elem']))
    return ' '.join(t)


def dec_read(rep):
    t = C.Toks(rep)
    if t.tok() != 'ok':
        raise RuntimeError('driver: ' + rep[:200])
    if t.nat() == 0:
        return None

    def idrow():
        i = t.nat()
        return i, t.lst(t.tok)
    nodes = t.lst(idrow)
    blocks = t.lst(lambda: (t.nat(), t.lst(lambda: (t.nat(), t.lst(t.nat)))))

    def tabs():
        # one table per variable, cut out of the rows by the MODEL (`readTables`, the function of the theorems)
        out = {}
        for _ in range(t.nat()):
            name, w = C.unesc(t.tok()), t.nat()
            ids = t.lst(t.nat)
            rows = t.lst(lambda: t.lst(lambda: bits(float(C.unesc(t.tok())))))
            assert all(len(r) == w for r in rows) or not rows
            out[name] = (ids, rows)
        return out
    nodal = tabs()
    elem = tabs()
    assert t.done()
    return {'nodes': ([i for i, _ in nodes], [[bits(float(x)) for x in r] for _, r in nodes]),
            'blocks': {G.ELEMENT_TYPES[ty]: [(i, c) for i, c in es] for ty, es in blocks},
            'nodal': nodal, 'elem': elem}


def model_write(ctx, flag, enc):
    """-> (hypotheses of the character-level theorems hold on this input, the file text of the model writer)"""
    t = C.Toks(ctx.driver.ask(f'c04.write {flag} ' + enc))
    if t.tok() != 'ok':
        raise RuntimeError('driver: c04.write failed')
    hyp = t.nat()
    text = C.unesc(t.tok())
    assert t.done()
    return bool(hyp), text


def check_ws_table(ctx):
    """tie of the lexer's whitespace class: `Femio.Text.wsCodes` = the code points with str.isspace() = the regex whitespace class"""
    import re
    t = C.Toks(ctx.driver.ask('c04.ws'))
    t.tok()
    model = t.lst(t.nat)
    py = [c for c in range(0x110000) if chr(c).isspace()]
    rx = [c for c in range(0x3100) if re.fullmatch(r'\s', chr(c))]
    if model != py or rx != [c for c in py if c < 0x3100]:
        ctx.disagree('whitespace class of the model lexer != str.isspace / regex whitespace class', {}, py, model)
    ctx.count('tie: whitespace table checked')


# ------------------------------------------------------------------ observation of the real implementation

def tab(attr):
    return [int(i) for i in attr.ids], [[bits(x) for x in row] for row in attr.data]


def observe(fd):
    return {'nodes': tab(fd.nodes),
            'blocks': {k: [(int(i), [int(n) for n in c]) for i, c in zip(v.ids, v.data)] for k, v in fd.elements.items()},
            'nodal': {k: tab(v) for k, v in fd.nodal_data.items()},
            'elem': {k: tab(v) for k, v in fd.elemental_data.items()}}


def keyed(t):
    return {i: tuple(r) for i, r in zip(*t)}


def real(f, *a, **k):
    import warnings
    try:
        with warnings.catch_warnings():
            warnings.simplefilter('ignore')
            return G.quiet(f, *a, **k), None
    except Exception as e:  # noqa
        return None, f'{type(e).__name__}: {str(e)[:160]}'


def brief(case):
    h = case.get('hist')
    return {'kind': case['kind'], 'order': case['order'], 'id_style': case['id_style'], 'n_nodes': len(case['nodes']),
            'n_elems': sum(len(b) for b in case['blocks'].values()), 'types': list(case['blocks']),
            'nodal_vars': [(v['name'], len(v['data'][0])) for v in case['nodal_vars']],
            'elem_vars': [(v['name'], len(v['data'][0]), v['how']) for v in case['elem_vars']],
            'pop_node': case['pop_node'],
            'key!=FEMAttribute.name': {v['name']: [v['attr'], v['how']] for v in case['nodal_vars'] + case['elem_vars']
                                       if v.get('attr', v['name']) != v['name']},
            **({'history': {'object read from a UCD file first': h['via_file'], 'derived by': h.get('derive'), 'written before the modifications': h['pre_write'],
                            'modifications': [hist_label(o) for o in h['mods']], 'final writes': h['writes']}} if h else {})}


def compare(content, obs, fd, report, pre=''):
    """the property: what was read (obs) vs the content that was written (a case description: construction data of an
    object written as constructed, the snapshot of the public state just before write() otherwise)"""
    n_before = [0]

    def rep(sig, what, observed):
        n_before[0] += 1
        report(pre + sig, what, observed)
    # coordinates by node id
    want = {i: tuple(bits(x) for x in p) for i, p in content['nodes']}
    got = keyed(obs['nodes'])
    if got != want:
        bad = [i for i in want if got.get(i) != want[i]][:3]
        rep('coordinates-differ', f'coordinates of node {bad} read back differ / node missing',
            {'ids': bad, 'read': [got.get(i) for i in bad], 'written': [want[i] for i in bad],
             'extra_nodes': sorted(set(got) - set(want))[:3]})
    # elements: type and connectivity by id (tet2 -> tet, first four nodes)
    wante = {}
    for t, b in content['blocks'].items():
        for e, c in b:
            wante[e] = ('tet', tuple(c[:4])) if t == 'tet2' else (t, tuple(c))
    gote = {i: (t, tuple(c)) for t, b in obs['blocks'].items() for i, c in b}
    if gote != wante:
        bad = [e for e in wante if gote.get(e) != wante[e]][:3]
        sig = 'tet2-not-corner-tet' if any(t == 'tet2' for t in content['blocks']) and all(
            gote.get(e) == wante[e] for t, b in content['blocks'].items() if t != 'tet2' for e, _ in b) else 'elements-differ'
        rep(sig, f'elements {bad} read back with another type / connectivity, or missing / extra elements',
            {'ids': bad, 'read': [gote.get(e) for e in bad], 'written': [wante[e] for e in bad],
             'extra': sorted(set(gote) - set(wante))[:3]})
    # variables (own = the variable's own id order inside the FEMData that was written)
    mesh_ids = {'nodal': [int(i) for i in fd.nodes.ids], 'elem': [int(i) for i in fd.elements.ids]}
    attrs = {'nodal': fd.nodal_data, 'elem': fd.elemental_data}
    for key, vars_, extra in (('nodal', content['nodal_vars'], {'NODE'}), ('elem', content['elem_vars'], set())):
        names = {v['name'] for v in vars_}
        if set(obs[key]) - extra != names:
            got_names = sorted(repr(k) if not isinstance(k, str) else k for k in obs[key])   # a garbled read may yield non-string keys
            rep(f'variables-differ:{key}', f'{key} variables read {got_names} != written {sorted(names)}',
                {'read': got_names, 'written': sorted(names)})
            continue
        for v in vars_:
            want = {i: tuple(bits(x) for x in r) for i, r in zip(v['ids'], v['data'])}
            got = keyed(obs[key][v['name']])
            if got != want:
                bad = [i for i in want if got.get(i) != want[i]][:3]
                own = [int(i) for i in attrs[key][v['name']].ids] if v['name'] in attrs[key] else mesh_ids[key]
                if not pre and own != mesh_ids[key] and sorted(own) == sorted(mesh_ids[key]):
                    rep(f'positional-binding:{key}:{v["how"]}',
                        f'{key} variable {v["name"]!r} (attached with {v["how"]}; its own id order {own[:4]}.. differs from '
                        f'the mesh\'s {mesh_ids[key][:4]}..) is not written by id: the value read back under id {bad[0]} '
                        f'is not the value the variable holds for that id', {'variable': v['name'], 'ids': bad, 'read': [got.get(i) for i in bad],
                                                   'written': [want[i] for i in bad], 'variable_ids': own[:6],
                                                   'mesh_ids': mesh_ids[key][:6]})
                else:
                    rep(f'values-differ:{key}', f'{key} variable {v["name"]!r}: the value read under id {bad[0]} is not '
                        f'the value it had ' + ('just before write()' if pre else 'before writing'),
                        {'variable': v['name'], 'ids': bad, 'read': [got.get(i) for i in bad], 'written': [want[i] for i in bad]})
        if key == 'nodal' and 'NODE' in obs[key] and keyed(obs[key]['NODE']) != keyed(obs['nodes']):
            rep('values-differ:nodal', 'nodal variable NODE differs from the coordinates', {})
    return n_before[0]


def read_back(path):
    from femio import FEMData
    rd, err = real(FEMData.read_files, 'ucd', path)
    return (None, err) if err else (observe(rd), None)


def oracle(ctx, case, report, prepared=None):
    """property on the real API: [history] -> write -> read -> compare.  An object written as constructed is compared
    with the data it was built from; an object with a history with the snapshot of its public state taken just before
    write() -- and its file with the file of an independently constructed fresh object of the same content, with the file
    of a second write of the same object, and the object's state after write() with the state before.
    -> dict(fd, snap, text, obs, notes) / dict(outside=why)"""
    h = case.get('hist')
    try:
        fd = prepared if prepared is not None else prepare(ctx, case)
    except HistoryError as e:
        return {'outside': 'history not applicable: ' + str(e), 'text': None}
    snap, err = real(snapshot, fd)
    if err:
        raise RuntimeError('harness: could not look at the FEMData: ' + err)
    out = {'fd': fd, 'snap': snap, 'text': None, 'obs': None, 'notes': []}
    pre = 'history:' if h else ''
    if h:
        why = incoherent(fd, snap)
        if why:
            return {'outside': 'public views of the object disagree: ' + why, 'text': None}
    content = content_of(snap) if h else case
    d = ctx.tmp / 'c04'
    d.mkdir(exist_ok=True)
    path = d / 'mesh.inp'
    same = bool(h) and h.get('pre_write') == 'same'
    if path.exists() and not same:
        path.unlink()
    _, err = real(fd.write, 'ucd', path, **({'overwrite': True} if same else {}))
    if err:
        report(pre + 'write-raises', f'write("ucd") raises {err}', {'error': err})
        return out
    text = out['text'] = path.read_text()
    obs, err = read_back(path)
    if err:
        report(pre + 'read-raises', f'read_files("ucd") of the written file raises {err}', {'error': err})
        return out
    out['obs'] = obs
    n_bad = compare(content, obs, fd, report, pre)
    # write() leaves the object as it was
    after, err = real(snapshot, fd)
    if err or snap_bits(after) != snap_bits(snap):
        a, b = snap_bits(snap), (snap_bits(after) if not err else {})
        report(pre + 'write-changes-object', 'the public state (ids / data of nodes, elements, variables) of the object after '
               'write("ucd") differs from the state before', {'parts': [k for k in a if a[k] != b.get(k)], 'error': err})
    if not h:
        return out
    # the same object written a second time: the same file
    if h.get('writes') == 2:
        p2 = path if h.get('second') == 'same-overwrite' else d / 'second.inp'
        _, err = real(fd.write, 'ucd', p2, overwrite=True)
        if err:
            report(pre + 'second-write:write-raises', f'the second write("ucd") of the same object raises {err}', {'error': err})
        elif p2.read_text() != text:
            obs2, err = read_back(p2)
            if err:
                report(pre + 'second-write:read-raises', f'the file of the second write cannot be read: {err}', {'error': err})
            elif not compare(content, obs2, fd, report, pre + 'second-write:'):
                out['notes'].append(('second write of the same object gives another file (both read back exactly)',
                                     text[:300], p2.read_text()[:300]))
    # an independently constructed fresh object with the same content: the same file (every second history when the model
    # writer is there to say what the bytes of the file must be; always when something is wrong or there is no model)
    if ctx.driver is not None and not n_bad and ctx.evaluations % 2:
        return out
    fresh, err = real(build, content)
    if err:
        raise RuntimeError('harness: could not build the fresh FEMData: ' + err)
    p3 = d / 'fresh.inp'
    _, err = real(fresh.write, 'ucd', p3)
    if err:
        report('fresh:write-raises', f'write("ucd") of a fresh object raises {err}', {'error': err, 'content': to_json(content)})
    elif p3.read_text() != text:
        # which of the two files is wrong is decided by the property (read back vs content), not by the byte difference
        def rep3(sig, what, o):
            report('fresh:' + sig, what + ' [fresh object with the content of the snapshot]', {**o, 'content': to_json(content)})
        obs3, err = read_back(p3)
        if err:
            rep3('read-raises', f'read_files("ucd") raises {err}', {'error': err})
        elif not compare(content, obs3, fresh, rep3) and not n_bad:
            out['notes'].append(('file of the modified object != file of a fresh object with the same content (both read '
                                 'back exactly)', text[:300], p3.read_text()[:300]))
    return out


CFGS = {'fixed': 1, 'upstream': 0}


ACFGS = {'dict': 1, 'denseTable': 0}


def model_align(ctx, flag, own, mesh):
    t = C.Toks(ctx.driver.ask(f'c04.align {flag} {C.enc_list(own)} {C.enc_list(mesh)}'))
    if t.tok() != 'ok':
        raise RuntimeError('driver: c04.align failed')
    return t.lst(lambda: t.nat() if t.nat() else None)


def align_tie(ctx, case, snap, text, stream):
    """objects with a negative id (no character-level model): the two data blocks of the real file vs the model of
    `_align_data` over integer ids (`Model/UcdAlignInt.lean`, `alignPositions`): next to every mesh id the row the variable
    holds at the position the model finds for that id (ACfg.dict = the tree; ACfg.denseTable = ids used as array positions)"""
    lines = text.split('\n')
    pos = 1 + len(snap['nodes'][0]) + len(snap['eids'])
    for fam, mesh_ids, tabs in (('nodal', snap['nodes'][0], snap['nodal']), ('elemental', snap['eids'], snap['elem'])):
        if not tabs:
            continue
        real_rows = [ln.split(' ') for ln in lines[pos + 1 + len(tabs):pos + 1 + len(tabs) + len(mesh_ids)]]
        pos += 1 + len(tabs) + len(mesh_ids)
        agree = {}
        for name, flag in ACFGS.items():
            if name == 'denseTable' and max(mesh_ids) > 10**5:
                continue        # the table model has max id + 1 slots: only asked when that is small
            want = [[str(i)] for i in mesh_ids]
            for _, ids, rows in tabs:
                where = model_align(ctx, flag, ids, mesh_ids)
                for w, k in zip(want, where):
                    w.extend([ftok(x) for x in rows[k]] if k is not None else ['<raises>'])
            agree[name] = want == real_rows
            if name == 'dict' and agree[name]:
                break
        ctx.count(f'tie: {fam} data block of the file vs the _align_data model over integer ids (c04.align)')
        if not agree['dict']:
            ctx.disagree(f'{stream}: {fam} data block of the written file != rows found by id as a key (model ACfg.dict)'
                         + (' (tree behaves as ACfg.denseTable: ids used as array positions with wrap-around)'
                            if agree.get('denseTable') else ''), brief(case),
                         [' '.join(r) for r in real_rows[:4]], [' '.join(r) for r in want[:4]] if not agree.get('denseTable') else 'ACfg.denseTable')


def run_case(ctx, case, cfg_mismatch, stream='main', prepared=None):
    # all streams (main, own-id-order, with or without a history) are inside the property's quantifier: failures are
    # reported through ctx.fail; objects whose public views disagree with each other are not (labelled stream `outside`)
    def report(sig, what, observed):
        ctx.fail(sig, what, to_json(case), observed)
        if stream != 'main':
            ctx.count(f'{stream}: {sig}')
    found = []
    r = oracle(ctx, case, lambda *a: found.append(a), prepared)
    if prepared is not None and (found or ctx.evaluations % 12 == 0):
        # `prepared` is the live object the history was generated on; a replay has the description only: failures are
        # reported as they reproduce from the description (and every 12th case, if it has a history, is rebuilt from it as a self-check)
        again = []
        r2 = oracle(ctx, case, lambda *a: again.append(a))
        if not r.get('outside') and (r2.get('outside') or snap_bits(r2['snap']) != snap_bits(r['snap'])
                                     or sorted(a[0] for a in again) != sorted(a[0] for a in found)):
            raise RuntimeError('harness: the description of a history does not reproduce the object it was generated on: '
                               + str(brief(case)))
        ctx.count('history: rebuilt from its description (self-check of the replay path)')
    for a in found:
        report(*a)
    if r.get('outside'):
        ctx.count('outside (not reported): ' + r['outside'].split(':')[0] + ': ' + r['outside'].split(':')[1].strip()[:60])
        return
    for what, a, b in r['notes']:
        ctx.disagree(f'{stream}: {what}', brief(case), a, b)
    text, obs = r['text'], r['obs']
    if ctx.driver is None or text is None:
        return
    if has_negative_id(r['snap']):
        ctx.count('signed ids: object with a negative id: oracle (+ fresh object) only, no character-level model tie')
        align_tie(ctx, case, r['snap'], text, stream)
        return
    # (a) writer: the characters of the real file vs the characters `fileText` of the model writer, for each Cfg
    # (exactly one must reproduce every file); the model is fed the state of the object just BEFORE write()
    enc = model_fem(r['snap'])
    for name, flag in CFGS.items():
        hyp, mtext = model_write(ctx, flag, enc)
        if name == 'fixed':
            ctx.count('hypotheses of C04_roundtrip_chars / C04_own_order_chars hold (femOKB, meshOKB): ' + ('yes' if hyp else 'NO'))
            if not hyp:
                ctx.disagree(f'{stream}: generated case violates the Boolean hypotheses of the character-level theorems',
                             brief(case), 'in-quantifier input', 'femOKB && meshOKB = false')
        if mtext != text:
            mlines, rlines = mtext.split('\n'), text.split('\n')
            k = next((i for i, (a, b) in enumerate(zip(mlines, rlines)) if a != b), min(len(mlines), len(rlines)))
            cfg_mismatch[name].append((f'{stream}: written file != model writer', brief(case),
                                       {'line': k, 'text': rlines[k:k + 2], 'n_lines': len(rlines)},
                                       {'line': k, 'text': mlines[k:k + 2], 'n_lines': len(mlines)}))
    # (a') session model (`Model/UcdHist.lean`, HCfg.tree): every file the history wrote holds, at the end, what the
    # model session holds for it (an earlier file at another path is still the earlier state, a re-written path the
    # final one, a second write the same characters)
    h = case.get('hist')
    pre_snap = getattr(r['fd'], 'c04_state_at_earlier_write', None)
    if pre_snap is not None and has_negative_id(pre_snap):
        ctx.count('signed ids: earlier state with a negative id: session tie skipped')
    elif h and (h.get('pre_write') or h.get('writes') == 2):
        steps, paths = [], {'mesh.inp': 0, 'earlier.inp': 1, 'second.inp': 2}
        if h.get('pre_write') and pre_snap is not None:
            steps += ['a ' + model_fem(pre_snap), 'w 0' if h['pre_write'] == 'same' else 'w 1']
        steps += [('i ' if steps else 'a ') + enc, 'w 0']
        if h.get('writes') == 2:
            steps.append('w 0' if h.get('second') == 'same-overwrite' else 'w 2')
        t = C.Toks(ctx.driver.ask('c04.session 1 ' + C.enc_list(steps, lambda x: x)))
        if t.tok() != 'ok':
            raise RuntimeError('driver: c04.session failed')
        model_files = dict(t.lst(lambda: (t.nat(), C.unesc(t.tok()))))
        real_files = {paths[f.name]: f.read_text() for f in (ctx.tmp / 'c04').iterdir() if f.name in paths}
        ctx.count('tie: session model vs the files on disk after the history')
        if model_files != real_files:
            bad = sorted(k for k in set(model_files) | set(real_files) if model_files.get(k) != real_files.get(k))
            names = {v: k for k, v in paths.items()}
            ctx.disagree(f'{stream}: files after the history != session model (HCfg.tree)', brief(case),
                         {names[k]: (real_files.get(k) or '<absent>')[:200] for k in bad},
                         {names[k]: (model_files.get(k) or '<absent>')[:200] for k in bad})
    # (b) reader: real reader vs model reader (`readText` + `readTables`) on the characters of the real file
    mread = dec_read(ctx.driver.ask('c04.read ' + C.esc(text)))
    if obs is None or mread is None:
        if (obs is None) != (mread is None):
            ctx.disagree(f'{stream}: reader raises / model reader fails', brief(case), obs is None, mread is None)
        return
    impl = {'nodes': obs['nodes'], 'blocks': obs['blocks'],
            'nodal': {k: v for k, v in obs['nodal'].items() if k != 'NODE' or 'NODE' in mread['nodal']},
            'elem': obs['elem']}
    for part in ('nodes', 'blocks', 'nodal', 'elem'):
        if impl[part] != mread[part]:
            ctx.disagree(f'{stream}: real reader != model reader ({part})', brief(case), str(impl[part])[:400],
                         str(mread[part])[:400])
            break


# ------------------------------------------------------------------ stream `large`: more than 65536 rows of one kind (oracle only)
#
# Block-wise writers / readers, 16-bit counters and "ids fit a small table" shortcuts are right on the small meshes of the
# other streams.  One (quick) / a few (thorough) large-but-cheap objects: > 2**16 nodes with three elements, or > 2**16
# elements over a few nodes, ids a shuffled dense range that may pass through zero, one nodal and one elemental variable in
# private id orders, random bit patterns + special values.  The description is the parameter set (the arrays are rebuilt
# from its seed); comparison by id, bit patterns, vectorised.

NAN_BITS = np.uint64(0x7ff8000000000000)


def _canon_bits(a):
    a = np.ascontiguousarray(a, dtype=np.float64)
    b = a.view(np.uint64).copy()
    b[np.isnan(a)] = NAN_BITS
    return b


def _rand_floats(rng, shape):
    x = rng.integers(0, 2**63, size=shape, dtype=np.int64).view(np.float64) * rng.choice([-1., 1.], size=shape)
    k = rng.random(shape)
    # mostly short numerals (the other streams are about the values; this one is about the rows, and must stay cheap)
    x = np.where(k < .8, rng.integers(-50, 50, size=shape).astype(float), x)
    sp = np.array([np.nan, -0.0, 0.0, 5e-324, 1e300, -1e-300, np.inf, -np.inf, 0.1, 1.7976931348623157e308])
    return np.where(k > .93, sp[rng.integers(0, len(sp), size=shape)], x)


def gen_large(rnd, shape=None):
    """shape: 'nodes' (> 65536 nodes, 3 elements), 'elems' (a few nodes, > 65536 elements), 'both' (all four tables of the
    file - nodes, elements, nodal data, elemental data - have more than 65536 rows: the quick tier's single case)"""
    big = 2**16 + rnd.randint(1, 900)
    shape = shape or rnd.choice(['nodes', 'elems', 'both'])
    t = rnd.choice(['tri', 'tet', 'quad']) if shape == 'nodes' else rnd.choice(['line', 'line', 'tri'])
    n_nodes, n_elems = {'nodes': (big, 3), 'elems': (rnd.randint(G.ARITY[t] + 1, 9), big),
                        'both': (big, 2**16 + rnd.randint(1, 900))}[shape]
    return {'large': {'seed': rnd.getrandbits(32), 'type': t, 'n_nodes': n_nodes, 'n_elems': n_elems,
                      'node0': rnd.choice([1, 1, 0, -3, -n_nodes // 2, 10**6]), 'elem0': rnd.choice([1, 1, 0, -2, -n_elems // 2, 10**6]),
                      'orders': [rnd.choice(['desc', 'shuffled', 'asc']), rnd.choice(['desc', 'shuffled', 'asc'])],
                      'widths': [rnd.choice([1, 1, 2]), rnd.choice([1, 1, 2])]},
            'nodes': [], 'blocks': {}, 'nodal_vars': [], 'elem_vars': [], 'pop_node': False, 'kind': 'large:' + t,
            'order': 'shuf', 'id_style': 'dense-range'}


def build_large(q):
    from femio import FEMData, FEMAttribute, FEMElementalAttribute
    rng = np.random.default_rng(q['seed'])
    nn, ne, t = q['n_nodes'], q['n_elems'], q['type']
    ar = G.ARITY[t]
    nids = rng.permutation(np.arange(q['node0'], q['node0'] + nn))
    xyz = _rand_floats(rng, (nn, 3))
    step = int(rng.integers(1, max(2, nn // ar)))
    conn = nids[(rng.integers(0, nn, size=ne)[:, None] + np.arange(ar)[None, :] * step) % nn]
    eids = rng.permutation(np.arange(q['elem0'], q['elem0'] + ne))

    def own(ids, how):
        return np.sort(ids) if how == 'asc' else np.sort(ids)[::-1].copy() if how == 'desc' else rng.permutation(ids)
    vn, ve = own(nids, q['orders'][0]), own(eids, q['orders'][1])
    dn, de = _rand_floats(rng, (nn, q['widths'][0])), _rand_floats(rng, (ne, q['widths'][1]))
    fd = FEMData(nodes=FEMAttribute('NODE', ids=nids.copy(), data=xyz.copy(), silent=True),
                 elements=FEMElementalAttribute('ELEMENT', {t: FEMAttribute(t, ids=eids.copy(), data=conn.copy(), silent=True)}))
    fd.nodal_data.update_data(vn.copy(), {'T': dn.copy()})
    fd.elemental_data.update_data(ve.copy(), {'S': de.copy()})
    return fd, {'nodes': (nids, xyz), 'elems': (eids, conn), 'T': (vn, dn), 'S': (ve, de)}


def oracle_large(ctx, case, report):
    from femio import FEMData
    q = case['large']
    (fd, want), err = real(build_large, q)
    if err:
        raise RuntimeError('harness: could not build the large FEMData: ' + err)
    d = ctx.tmp / 'c04'
    d.mkdir(exist_ok=True)
    path = d / 'large.inp'
    if path.exists():
        path.unlink()
    _, err = real(fd.write, 'ucd', path)
    if err:
        report('large:write-raises', f'write("ucd") raises {err}', {'error': err})
        return
    rd, err = real(FEMData.read_files, 'ucd', path)
    path.unlink()
    if err:
        report('large:read-raises', f'read_files("ucd") of the written file raises {err}', {'error': err})
        return

    def differs(ids, data, wids, wdata, floats=True):
        ids, wids = np.asarray(ids).astype(np.int64), np.asarray(wids).astype(np.int64)
        if len(ids) != len(wids) or np.shape(data) != np.shape(wdata):
            return f'{len(ids)} rows of shape {np.shape(data)[1:]} read, {len(wids)} of shape {np.shape(wdata)[1:]} written'
        o, wo = np.argsort(ids, kind='stable'), np.argsort(wids, kind='stable')
        if not np.array_equal(ids[o], wids[wo]):
            return 'the ids read are not the ids written'
        a, b = (np.asarray(data)[o], np.asarray(wdata)[wo])
        bad = np.any((_canon_bits(a) != _canon_bits(b)) if floats else (a.astype(np.int64) != b.astype(np.int64)), axis=1)
        if bad.any():
            k = int(np.argmax(bad))
            return (f'{int(bad.sum())} of {len(bad)} rows differ, first under id {int(ids[o][k])} (rank {k} of the sorted ids): '
                    f'read {a[k].tolist()} written {b[k].tolist()}')
        return None
    checks = [('coordinates-differ', lambda: differs(rd.nodes.ids, rd.nodes.data, *want['nodes'])),
              ('elements-differ', lambda: None if list(rd.elements.keys()) == [q['type']] else f'types read {list(rd.elements.keys())}'),
              ('elements-differ', lambda: differs(rd.elements.ids, rd.elements.data, *want['elems'], floats=False)),
              ('variables-differ:nodal', lambda: None if set(rd.nodal_data.keys()) - {'NODE'} == {'T'} else str(list(rd.nodal_data.keys()))),
              ('values-differ:nodal', lambda: differs(rd.nodal_data['T'].ids, rd.nodal_data['T'].data, *want['T'])),
              ('variables-differ:elem', lambda: None if set(rd.elemental_data.keys()) == {'S'} else str(list(rd.elemental_data.keys()))),
              ('values-differ:elem', lambda: differs(rd.elemental_data['S'].ids, rd.elemental_data['S'].data, *want['S']))]
    for sig, f in checks:
        why, err = real(f)
        if err or why:
            report('large:' + sig, f'object with {q["n_nodes"]} nodes / {q["n_elems"]} {q["type"]} elements (more than 65536 rows of one '
                   f'kind), read back after write("ucd"): {sig}: {why or err}', {'why': why, 'error': err})
            if sig.startswith('variables'):
                break
    # write() leaves the caller's view of the object as it was
    for (ids, data), a in zip((want['nodes'], want['elems'], want['T'], want['S']),
                              (fd.nodes, fd.elements, fd.nodal_data['T'], fd.elemental_data['S'])):
        if not np.array_equal(np.asarray(a.ids), ids) or not np.array_equal(_canon_bits(a.data) if data.dtype.kind == 'f' else a.data,
                                                                          _canon_bits(data) if data.dtype.kind == 'f' else data):
            report('large:write-changes-object', 'ids / data of the object after write("ucd") differ from those before', {'attribute': a.name})


def own_order_families(case):
    """per family: number of distinct row orders (as they are in the built FEMData: generate_elemental_attribute sorts)
    that differ from the mesh order"""
    nids = [i for i, _ in case['nodes']]
    eids = [e for b in case['blocks'].values() for e, _ in b]
    if len(case['blocks']) > 1:
        eids.sort()
    out = {}
    for key, vars_, mesh in (('nodal', case['nodal_vars'], nids), ('elemental', case['elem_vars'], eids)):
        orders = {tuple(sorted(v['ids']) if v['how'] == 'generate' else v['ids']) for v in vars_}
        out[key] = len(orders - {tuple(mesh)})
    return out


def count_ids(ctx, case, stream=''):
    for part in case['id_style'].split('/')[1].split(',') if '/' in case['id_style'] else []:
        ctx.count(f'{stream}signed ids: {"node" if part[0] == "n" else "element"} ids {part[2:]}')
    nids = [i for i, _ in case['nodes']]
    eids = [e for b in case['blocks'].values() for e, _ in b]
    for what, ids in (('node', nids), ('element', eids)):
        if min(ids) < 0:
            ctx.count(f'{stream}signed ids: cases with a negative {what} id')
            if any((max(ids) + 1 + k) in ids for k in ids if k < 0):
                ctx.count(f'{stream}signed ids: cases where a negative {what} id -k lives next to the id max+1-k')
        if 0 in ids:
            ctx.count(f'{stream}signed ids: cases with the {what} id 0')
        if max(ids) >= 2**31 or min(ids) < -2**31:
            ctx.count(f'{stream}signed ids: cases with a {what} id outside the 32-bit range')
    if len(nids) == len(eids):
        ctx.count(f'{stream}square: as many elements as nodes')
    for k, d in (case.get('id_dtypes') or {}).items():
        ctx.count(f'{stream}id dtype: {k} ids handed over as {d}')
    if not case.get('id_dtypes'):
        ctx.count(f'{stream}id dtype: default (int64)')


def count_renames(ctx, case, stream=''):
    for fam, vars_ in (('nodal', case['nodal_vars']), ('elemental', case['elem_vars'])):
        ren = [v for v in vars_ if v.get('attr', v['name']) != v['name']]
        for v in ren:
            ctx.count(f'{stream}key != FEMAttribute.name: {fam} variable attached by {v["how"]}')
        names = [v.get('attr', v['name']) for v in vars_]
        if len(set(names)) < len(names):
            ctx.count(f'{stream}key != FEMAttribute.name: cases with two {fam} keys sharing one attribute name')
        if any(v['attr'] in {w['name'] for w in vars_} for v in ren):
            ctx.count(f'{stream}key != FEMAttribute.name: cases with a {fam} attribute named like another key')


P_HISTORY, P_HISTORY_OWN = .42, .3


def count_history(ctx, case, stream=''):
    h = case.get('hist')
    ctx.count(f'{stream}history: ' + ('object modified / written before the final write' if h else 'none (written as constructed)'))
    if not h:
        return
    ctx.count(f'{stream}history: number of modifications: {len(h["mods"])}')
    for o in h['mods']:
        ctx.count(f'{stream}history: modification {hist_label(o)}')
    if h.get('derive'):
        ctx.count(f'{stream}history: the written object is derived from the constructed one by {h["derive"]}()'
                  + (' after the parent was written' if h.get('pre_write') and h.get('pre_on') == 'parent' else ''))
    if h['via_file']:
        ctx.count(f'{stream}history: object read from a UCD file, then modified and written (write after read)')
    if h['pre_write']:
        ctx.count(f'{stream}history: object written once before the modifications ({h["pre_write"]} file)')
    if h['writes'] == 2:
        ctx.count(f'{stream}history: final state written twice (second: {h["second"]})')


def run(ctx):
    n_cases =ctx.n(220, 2500) if ctx.driver is not None else ctx.n(400, 3000)
    cfg_mismatch = {c: [] for c in CFGS}
    if ctx.driver is not None:
        check_ws_table(ctx)
    for name, obj in C.corpus_cases(PROP):
        run_case(ctx, from_json(obj['input']), cfg_mismatch)
        ctx.count('corpus')
    for k in range(n_cases):
        case = gen_case(ctx.rng)
        fd = gen_history(ctx, ctx.rng, case) if ctx.rng.random() < P_HISTORY else None
        count_history(ctx, case)
        vals = [x for v in case['nodal_vars'] + case['elem_vars'] for r in v['data'] for x in r] + \
               [x for _, p in case['nodes'] for x in p]
        ctx.case(str(to_json(case)), sample=brief(case),
                 nontrivial=sum(len(b) for b in case['blocks'].values()) >= 2 and bool(case['nodal_vars'] or case['elem_vars']))
        ctx.count('mesh:' + ('mixed' if len(case['blocks']) > 1 else 'uniform'))
        for t in case['blocks']:
            ctx.count('etype:' + t)
        if 'tet' in case['blocks'] and 'tet2' in case['blocks']:
            ctx.count('tet+tet2 in one mesh')
        ctx.count('storage-order:' + case['order'])
        ctx.count('id-style:' + case['id_style'].split('/')[0])
        count_ids(ctx, case)
        ctx.count(f"blocks nodal/elemental:{'absent' if case['pop_node'] else 'present'}/"
                  f"{'present' if case['elem_vars'] else 'absent'}")
        ctx.count(f"n_nodal_vars(+NODE):{len(case['nodal_vars'])}")
        ctx.count(f"n_elem_vars:{len(case['elem_vars'])}")
        for v in case['elem_vars']:
            ctx.count('elemental attached by:' + v['how'])
        count_renames(ctx, case)
        ctx.count('values:nan', sum(1 for x in vals if x != x))
        ctx.count('values:inf', sum(1 for x in vals if math.isinf(x)))
        ctx.count('values:-0.0', sum(1 for x in vals if x == 0 and math.copysign(1, x) < 0))
        ctx.count('values:denormal', sum(1 for x in vals if x == x and x != 0 and abs(x) < 2.2250738585072014e-308))
        ctx.count('values:|x|>=1e300', sum(1 for x in vals if x == x and not math.isinf(x) and abs(x) >= 1e300))
        ctx.count('values:total', len(vals))
        run_case(ctx, case, cfg_mismatch, prepared=fd)
    # stream own-id-order (DESIGN section 5, F9 - fixed in the tree: the writer binds rows to ids): every variable keeps its
    # rows in a private id order; part of the property oracle (values read back are bound to the same ids, bit-identical)
    for k in range(ctx.n(90, 700) if ctx.driver is not None else ctx.n(160, 900)):
        case = gen_case(ctx.rng, own_orders=True)
        fd = gen_history(ctx, ctx.rng, case) if ctx.rng.random() < P_HISTORY_OWN else None
        count_history(ctx, case, 'own-id-order: ')
        fams = own_order_families(case)
        ctx.case(('own-id-order', str(to_json(case))), sample=None, nontrivial=any(n >= 2 for n in fams.values()))
        ctx.count('own-id-order: cases')
        for key, n in fams.items():
            ctx.count(f'own-id-order: {key} variables with distinct private orders != mesh order: {min(n, 3)}{"+" if n >= 3 else ""}')
        for v in case['nodal_vars'] + case['elem_vars']:
            ctx.count('own-id-order: attached by ' + v['how'])
        count_renames(ctx, case, 'own-id-order: ')
        count_ids(ctx, case, 'own-id-order: ')
        run_case(ctx, case, cfg_mismatch, stream='own-id-order', prepared=fd)
    for k in range(ctx.n(1, 6)):
        case = gen_large(ctx.rng, 'both' if ctx.quick else None)
        q = case['large']
        ctx.case(('large', str(q)), sample=q, nontrivial=True)
        ctx.count('large: cases with more than 65536 ' + ' and '.join(
            w for w, n in (('nodes', q['n_nodes']), ('elements', q['n_elems'])) if n > 2**16))
        oracle_large(ctx, case, lambda sig, what, observed: ctx.fail(sig, what, case, observed))
    if ctx.driver is not None:
        agree = [c for c in CFGS if not cfg_mismatch[c]]
        ctx.extra['cfg_detected'] = agree
        ctx.extra['cfg_mismatches'] = {c: len(v) for c, v in cfg_mismatch.items()}
        if 'fixed' not in agree:
            for what, b, impl, model in cfg_mismatch['fixed'][:10]:
                ctx.disagree(what + ' Cfg.fixed' + (' (tree behaves as Cfg.upstream: F9)' if 'upstream' in agree else ''),
                             b, impl, model)
    ctx.failures.sort(key=lambda f: (len((f['case'].get('hist') or {}).get('mods', [])), len(f['case']['nodes']),
                                     sum(len(b) for b in f['case']['blocks'].values())))
    if ctx.failures and ctx.failures[0]['case'].get('hist'):
        shrink_history(ctx, ctx.failures[0])


def shrink_history(ctx, f):
    """the primary failure, if it has a history: drop every step of the history that is not needed for its signature"""
    def fails(c):
        sigs = []
        try:
            oracle(ctx, c, lambda sig, what, observed: sigs.append((sig, what, observed)))
        except Exception:  # noqa
            return None
        return next((x for x in sigs if x[0] == f['signature']), None)
    case = from_json(f['case'])
    if fails(case) is None:
        return
    h = case['hist']
    for simpler in ({'via_file': False}, {'derive': None}, {'pre_write': None}, {'writes': 1}):
        c = {**case, 'hist': {**h, **simpler}}
        if h.get(list(simpler)[0]) != list(simpler.values())[0] and fails(c):
            case, h = c, c['hist']
    k = 0
    while k < len(h['mods']):
        c = {**case, 'hist': {**h, 'mods': h['mods'][:k] + h['mods'][k + 1:]}}
        if fails(c):
            case, h = c, c['hist']
        else:
            k += 1
    got = fails(case)
    if got:
        f.update(case=to_json(case), what=got[1], observed=got[2])
        ctx.count('primary failure: history shrunk to the steps needed')


def replay(ctx, obj):
    case = from_json(obj['input'])
    found = []
    if case.get('large'):
        oracle_large(ctx, case, lambda sig, what, observed: found.append({'signature': sig, 'what': what, 'observed': observed}))
        return {'case': case['large'], 'failures': found, 'fails': bool(found)}
    r = oracle(ctx, case, lambda sig, what, observed: found.append({'signature': sig, 'what': what, 'observed': observed}))
    text = r.get('text')
    out = {'case': brief(case), 'failures': found, 'fails': bool(found), 'file_head': (text or '').split('\n')[:6]}
    if r.get('outside'):
        out['outside'] = r['outside']
    if ctx.driver is not None and text is not None and not has_negative_id(r['snap']):
        enc = model_fem(r['snap'])
        out['model_writer_agrees'] = {}
        for name, flag in CFGS.items():
            out['model_writer_agrees']['Cfg.' + name] = model_write(ctx, flag, enc)[1] == text
        mread = dec_read(ctx.driver.ask('c04.read ' + C.esc(text)))
        out['model_reader'] = None if mread is None else {'nodes': str(mread['nodes'])[:200], 'blocks': str(mread['blocks'])[:300]}
    return out
