"""C04 - AVS UCD write -> read is bit-exact for mesh, nodal and elemental data (DESIGN.md section 4, C04).

Tie D: random FEMData (arbitrary ids / storage order, any mix of first-order element types and tet2, any number of
nodal / elemental variables of arbitrary width, any float64 values) ->
  (a) the file written by the real `FEMData.write('ucd')` is compared line by line with the text the model writer
      `Femio.Ucd.write` produces from "what the writer looks at" (values enter the model as their printed numerals);
  (b) the real reader's result on that file is compared with the model reader `Femio.Ucd.read` run on the same text
      (ids, storage order, per-type blocks, variables, values by bit pattern).
Oracle: real write -> real read -> bitwise equality by id, same types / connectivity (tet2 -> corner tet), same
variables.  Variables whose own id order differs from the mesh's (DESIGN section 5, F9: fixed in the tree, the writer
binds rows to ids) are inside the oracle: stream `own-id-order` gives every variable a private row order (mesh order,
ascending, descending, reversed, rolled, shuffled), with two or more nodal and / or elemental variables carrying
DIFFERENT private orders, and demands the values read back under every id to be bit-identical to the variable's own
row for that id.  The correspondence (model writer Cfg.fixed = rows looked up by id per variable) runs on it as well.

Histories (seeded change C04-6: the writer took coordinates / nodal values from the attributes' pandas frames, which do not
share memory with the arrays behind `.data`): in both streams about 40% of the objects are NOT written as constructed.
`case['hist']` = the object is optionally first written and read back from a UCD file (write after read), optionally
written once already, then modified 0-4 times through public means (in-place edits through the arrays returned by `.data`
/ `.values` / `get_attribute_data` of nodes, nodal and elemental variables and connectivity, edits through the arrays the
caller handed to the constructors, `data` setter with and without later edits of the assigned array, `.loc` / `.iloc`
write-through, `update` / `update_data(..., allow_overwrite=True)`, `overwrite` with and without ids, pop / add of
variables, `elements.update` of whole type blocks, block update of elemental variables, renumbering of nodes / elements by
permutations of the SAME ids, offsets and rank reversal), then written once or twice.  Expected = the snapshot of the
object's public state (`ids` / `data` views) taken just before write(); the model writer is fed that snapshot (byte
identity), an independently constructed fresh object with the same content must give the same bytes, a second write the
same bytes, write() must leave the public state as it was, and the session model (`Model/UcdHist.lean`) must hold, at the
end, exactly the files on disk.  An object whose public views disagree with each other (aggregate element view vs
per-type blocks) is outside the property: counted under `outside`, never reported.
"""
import math
import struct

import numpy as np

from . import common as C
from . import meshgen as G

PROP = 'C04'
LEAN_MODULES = ['Femio.Props.C04']
THEOREMS = ['C04_offsets', 'C04_roundtrip', 'C04_roundtrip_printed', 'C04_tet2_first_order', 'C04_nothing_else_changes',
            'C04_bound_to_same_ids', 'C04_type_table', 'C04_misaligned_counterexample',
            'C04_bound_to_same_ids_own_order', 'C04_own_order_counterexample_upstream', 'C04_lex_print_line',
            'C04_roundtrip_lines', 'C04_roundtrip_chars', 'C04_roundtrip_chars_printed', 'C04_own_order_chars',
            'C04_history_roundtrip', 'C04_write_leaves_object', 'C04_second_write_same_file',
            'C04_file_of_public_state_only', 'C04_stale_frame_counterexample']
PARTIAL = [
    'C04_roundtrip_printed / C04_roundtrip_chars_printed: parametric in (print, parse) with the hypotheses '
    'parse (print v) = v and valOKB (print v); that Python\'s shortest repr / float() satisfy the first is trusted and '
    'exercised by the special-value stream (bit patterns compared); the second is a Boolean function the driver '
    'evaluates on every printed value of every case (count "hypotheses ... hold")',
    'character level: lines are split at newlines with empty lines skipped (pd.read_csv(sep="@", header=None) inside '
    'StringSeries.read_file is modelled by that rule, its quoting / carriage-return handling is not modelled; '
    'names and numerals contain neither quotes nor carriage returns)',
    'C04_history_roundtrip / C04_second_write_same_file / C04_file_of_public_state_only: the session model (Model/UcdHist.lean) '
    'takes the effect of a modification on the public state as data (Step.assign / Step.inplace carry the resulting state, '
    'Step.edit an arbitrary function): how pandas / numpy compute that state (combine_first, write-through, aliasing) is not '
    'modelled; the tie feeds the model the snapshots taken from the real object before each write and compares every file',
]
RULE = ('random combinatorial mesh (1-3 element types out of line, spring, tri, quad, tet, tet2, pyr, prism, hex, hexprism; '
        'tet together with tet2 included; arbitrary distinct node / element ids incl. ~2e9; storage order ascending, '
        'descending or shuffled per type block) x 0-4 extra nodal variables (plus NODE, or no nodal variable at all after '
        'nodal_data.pop) x 0-4 elemental variables (attached through update_data or generate_elemental_attribute) of widths '
        '1-9 x float64 values drawn from small integers, dyadic rationals, decimals, NaN, +-0.0, denormals, 1e+-300, '
        'DBL_MAX, +-inf and uniformly random bit patterns, in coordinates too; in 40% of the cases a share of the nodal and '
        'elemental variables is stored under a dict key that differs from its FEMAttribute.name (fresh name, the key of '
        'another variable, one name shared by several keys; attached by attrs[key] = attribute, attrs.update({key: attribute}) '
        'or set_attribute_data(key, data, name=...)): the variable\'s name in the file and after reading is the KEY; distinct =distinct (mesh, variables, values); '
        'non-trivial = at least 2 elements and at least one variable besides NODE. Stream own-id-order: the same meshes, '
        'every variable stored in a private id order drawn from {mesh order, ascending, descending, reversed mesh order, '
        'rolled, shuffled}, 2-4 variables in at least one of the two families (nodal / elemental); non-trivial = some '
        'family holds two variables whose orders differ from the mesh order and from each other. Dimension HISTORY (42% of '
        'the main stream, 30% of own-id-order): the object is not written as constructed: optionally read from a UCD file '
        'first (14%), optionally written once before (40%; to the same or another file), then 0-4 modifications through public '
        'means with concrete arguments chosen against the live object (in-place edits of cells / rows / whole arrays through '
        '.data, .values, get_attribute_data of nodes, nodal / elemental variables, connectivity; edits through the arrays the '
        'caller passed to the constructors; data setter (+ later edit of the assigned array, width changes); .loc / .iloc / '
        'slice / scalar write-through; update / update_data(allow_overwrite=True); overwrite with / without ids; pop / add '
        'variables; elements.update and elemental block updates; renumbering nodes / elements by a permutation of the same ids, '
        'an offset or rank reversal), then one or two final writes (other file / same file with overwrite=True); expectation = '
        'snapshot of the public ids / data views just before write(); every history is replayable from its JSON description')
ASSUMPTIONS = [
    'the ids of a nodal (elemental) variable are a permutation of the mesh\'s node (element) ids; the row order of each '
    'variable is its own (aligned with the mesh in the main stream, private per variable in the stream own-id-order)',
    'variable names are identifiers without comma or blank; NaNs are compared as NaN (one token; sign / payload of a NaN '
    'are not representable in the text format)',
    'node and element ids are positive integers below 2**53 (the reader converts ids through float)',
    'polygon / polyhedron elements (object connectivity) and second-order types other than tet2 (the writer raises) are '
    'outside the property',
    'the mesh "with its data" of an object that has a history is its PUBLIC state at the time of write(): ids / data of '
    'fem_data.nodes, of every per-type block of fem_data.elements, and of every 2-D entry of nodal_data / elemental_data; an '
    'object whose public views disagree with each other (aggregate view of the elements or of an elemental variable != its '
    'per-type blocks, NODE variable != coordinates, a variable that does not cover the ids) is outside (stream `outside`); '
    'modifications that femio itself refuses (they raise before write) end the generated history before them',
]
TRUSTED = ['C04: parse (print v) = v for Python shortest-repr printing and float() (hypothesis of C04_roundtrip_printed)']

UCD_TYPES = ['line', 'spring', 'tri', 'quad', 'tet', 'tet2', 'pyr', 'prism', 'hex', 'hexprism']
NAMES = ['T', 'U', 'DISPLACEMENT', 'NodalSTRESS', 'tet', 'hex2', 'inf', 'E12', 'x_1', 'unit', 'ELEMENT', 'p', 'Mises']
ALNUM = 'ABCDEFGHIJKLMNOPQRSTUVWXYZabcdefghijklmnopqrstuvwxyz0123456789_'
SPECIAL = [float('nan'), 0.0, -0.0, 5e-324, -5e-324, 2.2250738585072014e-308, -2.225073858507201e-308, 1e300, -1e300,
           1e-300, 1.7976931348623157e308, -1.7976931348623157e308, float('inf'), float('-inf'), 0.1, 1 / 3, 1e22, 1e23,
           9007199254740993.0, 123456789.12345679, 1e16, 1e-5, 0.0001]


def bits(x):
    x = float(x)
    return 'nan' if x != x else struct.pack('<d', x).hex()


def ftok(x):
    """the numeral pandas' to_csv(na_rep='NaN') prints for a float64"""
    x = float(x)
    if x != x:
        return 'NaN'
    return repr(x)


def rand_float(rnd, special=.25):
    k = rnd.random()
    if k < special:
        return rnd.choice(SPECIAL)
    if k < .45:
        return float(rnd.randint(-50, 50))
    if k < .6:
        return rnd.randint(-10**6, 10**6) / 2**rnd.randint(0, 20)
    if k < .75:
        return float('%.12e' % rnd.uniform(-1e5, 1e5))
    x = struct.unpack('<d', struct.pack('<Q', rnd.getrandbits(64)))[0]
    return x


def is_alias(n):
    """femio renames a variable whose name is one of its alias keys (config.DICT_ALIASES, e.g. 'vf' -> 'VF',
    'disp' -> 'DISPLACEMENT') when it is stored: such reserved names are not arbitrary user names"""
    from femio import config
    return config.DICT_ALIASES.get(n, n) != n


def rand_names(rnd, k, taken=()):
    out = []
    while len(out) < k:
        n = rnd.choice(NAMES) if rnd.random() < .6 else \
            rnd.choice(ALNUM[:52]) + ''.join(rnd.choice(ALNUM) for _ in range(rnd.randint(0, 9)))
        if n in out or n in taken or n == 'NODE' or is_alias(n):
            continue
        out.append(n)
    return out


ORDER_CLASSES = ['mesh', 'asc', 'desc', 'reversed', 'rolled', 'shuffled', 'shuffled']


def private_order(rnd, ids, cls):
    ids = list(ids)
    if cls == 'asc':
        return sorted(ids)
    if cls == 'desc':
        return sorted(ids, reverse=True)
    if cls == 'reversed':
        return ids[::-1]
    if cls == 'rolled' and len(ids) > 1:
        k = rnd.randrange(1, len(ids))
        return ids[k:] + ids[:k]
    if cls == 'shuffled':
        rnd.shuffle(ids)
    return ids


def rename_some(rnd, vars_, aligned):
    """a share of the variables of one family is stored under a dict KEY (v['name'], the variable's name for the user and
    in the file) that differs from its FEMAttribute.name (v['attr']): a fresh name, the key of another variable of the
    family, or one name shared by several keys.  Such a variable is attached through `attrs[key] = attribute`,
    `attrs.update({key: attribute})` or `attrs.set_attribute_data(key, data, name=...)` (the last one takes the ids of
    the first attribute: only for variables in mesh order)"""
    keys = [v['name'] for v in vars_]
    shared = rand_names(rnd, 1, taken=keys)[0]
    for v in vars_:
        if rnd.random() < .65:
            others = [k for k in keys if k != v['name']]
            r = rnd.random()
            v['attr'] = shared if r < .45 else rnd.choice(others) if (r < .7 and others) else rand_names(rnd, 1, taken=keys)[0]
            if v['how'] != 'generate':
                v['how'] = rnd.choice(['setitem', 'update'] + (['set_attribute_data'] if aligned else []))


def gen_case(rnd, own_orders=False):
    """-> JSON-able description from which `build` makes the FEMData; own_orders: every variable keeps its rows in a
    private id order, and at least one family (nodal / elemental) has two or more variables"""
    r = rnd.random()
    if r < .12:
        types = ['tet', 'tet2']
    elif r < .45:
        types = [rnd.choice(UCD_TYPES)]
    else:
        types = rnd.sample(UCD_TYPES, rnd.randint(2, 3))
    m = G.gen_combinatorial(rnd, types=types, max_elems=max(len(types), rnd.choice([1, 3, 6, 12])))
    for _ in range(20 if own_orders else 0):      # private orders need a few rows to differ from each other
        if sum(len(b) for b in m['blocks'].values()) >= 4:
            break
        m = G.gen_combinatorial(rnd, types=types, max_elems=max(len(types), rnd.choice([6, 9, 12])))
    sp = rnd.choice([0, .05, .3])
    nodes = [[i, [rand_float(rnd, sp) if sp else float(v) for v in p]] for i, p in m['nodes']]
    nids = [i for i, _ in nodes]
    blocks = {t: [[e, list(c)] for e, c in b] for t, b in m['blocks'].items()}
    # elements.ids of the FEMData: one block -> storage order, several -> ascending
    eids = [e for b in blocks.values() for e, _ in b]
    if len(blocks) > 1:
        eids.sort()
    n_nv = rnd.choice([0, 0, 1, 2, 3, 4])
    n_ev = rnd.choice([0, 1, 1, 2, 3, 4])
    if own_orders:
        n_nv, n_ev = rnd.choice([(2, 0), (0, 2), (2, 2), (3, 1), (1, 3), (4, 2), (2, 4), (3, 3)])
    pop_node = n_nv == 0 and rnd.random() < .6
    widths = [1, 1, 3, 3, 6, 2, 4, 5, 7, 9]

    def var(name, ids, how):
        w = rnd.choice(widths)
        own = list(ids)
        if own_orders:
            own = private_order(rnd, ids, rnd.choice(ORDER_CLASSES))
        return {'name': name, 'ids': own, 'how': how, 'data': [[rand_float(rnd) for _ in range(w)] for _ in own]}
    nv = [var(n, nids, 'update_data') for n in rand_names(rnd, n_nv)]
    ev = [var(n, eids, rnd.choice(['update_data', 'update_data', 'generate'] if own_orders else ['update_data', 'generate']))
          for n in rand_names(rnd, n_ev)]
    if rnd.random() < .4:
        rename_some(rnd, nv, aligned=not own_orders)
        rename_some(rnd, ev, aligned=not own_orders)
    return {'nodes': nodes, 'blocks': blocks, 'nodal_vars': nv, 'elem_vars': ev, 'pop_node': pop_node,
            'kind': m['kind'], 'order': m['order'], 'id_style': m['id_style']}


def enc_f(x):
    return 'nan' if x != x else float(x).hex()


def dec_f(s):
    return float('nan') if s == 'nan' else float.fromhex(s) if isinstance(s, str) else float(s)


def to_json(case):
    """floats as hex strings (NaN / inf are not JSON)"""
    def fl(rows):
        return [[enc_f(x) for x in r] for r in rows]
    return {**case, 'nodes': [[i, [enc_f(x) for x in p]] for i, p in case['nodes']],
            'nodal_vars': [{**v, 'data': fl(v['data'])} for v in case['nodal_vars']],
            'elem_vars': [{**v, 'data': fl(v['data'])} for v in case['elem_vars']]}


def from_json(j):
    def fl(rows):
        return [[dec_f(x) for x in r] for r in rows]
    return {**j, 'nodes': [[i, [dec_f(x) for x in p]] for i, p in j['nodes']],
            'nodal_vars': [{**v, 'data': fl(v['data'])} for v in j['nodal_vars']],
            'elem_vars': [{**v, 'data': fl(v['data'])} for v in j['elem_vars']]}


def attach(fd, fam, v, keep=None):
    """store the variable under the KEY v['name'] of fd.nodal_data (fam 'nodal') / fd.elemental_data (fam 'elem'); its
    FEMAttribute.name is v['attr'] (default: the key).  keep: the arrays handed to femio are recorded (caller-side aliases)"""
    from femio import FEMAttribute, FEMElementalAttribute
    attrs = fd.nodal_data if fam == 'nodal' else fd.elemental_data
    if fam == 'nodal':
        def make(name, ids, data):
            return FEMAttribute(name, ids=ids, data=data)
    else:
        def make(name, ids, data):
            return FEMElementalAttribute(name, data, ids=ids)
    key, attr, ids, data = v['name'], v.get('attr', v['name']), np.array(v['ids']), np.array(v['data'], dtype=float)
    if keep is not None:
        keep[(fam, key)] = data
    how = v['how']
    if how == 'set_attribute_data' and not (len(attrs) and [int(i) for i in list(attrs.values())[0].ids] == v['ids']
                                            and attrs.are_same_lengths()):
        how = 'setitem'      # set_attribute_data binds the rows to the ids of the first attribute
    if how == 'update_data':
        assert attr == key
        attrs.update_data(ids, {key: data})
    elif how == 'generate':
        attrs[key] = fd.elements.generate_elemental_attribute(attr, ids, data)
    elif how == 'setitem':
        attrs[key] = make(attr, ids, data)
    elif how == 'update':
        attrs.update({key: make(attr, ids, data)})
    elif how == 'set_attribute_data':
        attrs.set_attribute_data(key, data, name=attr)
    else:
        raise ValueError(how)


def build(case, keep=None):
    """the FEMData of the case AS CONSTRUCTED (the history of the case, if any, is applied by `prepare`)"""
    from femio import FEMData, FEMAttribute, FEMElementalAttribute
    xyz = np.array([p for _, p in case['nodes']], dtype=float)
    conn = {t: np.array([c for _, c in b]) for t, b in case['blocks'].items()}
    nodes = FEMAttribute('NODE', ids=np.array([i for i, _ in case['nodes']]), data=xyz, silent=True)
    el = {t: FEMAttribute(t, ids=np.array([e for e, _ in b]), data=conn[t], silent=True)
          for t, b in case['blocks'].items()}
    fd = FEMData(nodes=nodes, elements=FEMElementalAttribute('ELEMENT', G.insertion_order(el)))
    if keep is not None:
        keep[('nodes', None)] = xyz
        keep.update({('conn', t): a for t, a in conn.items()})
    for v in case['nodal_vars']:
        attach(fd, 'nodal', v, keep)
    for v in case['elem_vars']:
        attach(fd, 'elem', v, keep)
    if case['pop_node']:
        fd.nodal_data.pop('NODE')
    elif case.get('node_pos'):
        # NODE is not the first nodal variable (an object read from a file without NODE block gets it appended)
        items = [(k, v) for k, v in fd.nodal_data.items() if k != 'NODE']
        items.insert(case['node_pos'], ('NODE', fd.nodes))
        fd.nodal_data.reset()
        for k, v in items:
            fd.nodal_data[k] = v
    return fd


# ------------------------------------------------------------------ histories: the object is modified between construction and write
#
# case['hist'] = {'via_file': bool          the object that is written was itself READ from a UCD file (write after read)
#                 'pre_write': None | 'same' | 'other'   the object has already been written once before it is modified
#                 'mods': [op ...]          modifications through public means, in this order (concrete arguments, JSON)
#                 'writes': 1 | 2           the final state is written once / twice ('second': other file | same file, overwrite=True)}
# The expected content of the file is that of the object's public state (`ids` / `data` views) just before write().

class HistoryError(Exception):
    """a step BEFORE the final write raised or does not apply: not the subject of C04 (the case is skipped and counted)"""


def _fmat(rows):
    return np.array([[dec_f(x) for x in r] for r in rows], dtype=float)


def _mat(rows, fam):
    return np.array(rows, dtype=int) if fam == 'conn' else _fmat(rows)


def _val(x, fam):
    return int(x) if fam == 'conn' else dec_f(x)


def _attr(fd, fam, key):
    if fam == 'nodes':
        return fd.nodes
    if fam == 'nodal':
        return fd.nodal_data[key]
    if fam == 'elem':
        return fd.elemental_data[key]
    if fam == 'conn':
        return fd.elements       # one element type: the aggregate view is the block's own array
    raise ValueError(fam)


def _view(fd, op):
    """the array a user gets hold of (several public spellings of the same thing)"""
    fam, key, via = op['fam'], op.get('key'), op.get('via', 'data')
    if via == 'get_attribute_data' and fam in ('nodal', 'elem'):
        return (fd.nodal_data if fam == 'nodal' else fd.elemental_data).get_attribute_data(key)
    a = _attr(fd, fam, key)
    return a.values if (via == 'values' and hasattr(a, 'values') and not isinstance(a, dict)) else a.data


def _edit(arr, op):
    fam, how = op['fam'], op['how']
    if how == 'cell':
        for r, c, x in op['cells']:
            arr[r, c] = _val(x, fam)
    elif how == 'row=':
        arr[op['row']] = [_val(x, fam) for x in op['vals']]
    elif how == 'row+=':
        arr[op['row']] += np.array([_val(x, fam) for x in op['vals']])
    elif how == 'all=':
        arr[...] = _mat(op['data'], fam)
    else:
        raise ValueError(how)


def apply_op(fd, op, keep):
    from femio import FEMAttribute
    o, fam, key = op['op'], op.get('fam'), op.get('key')
    if o == 'inplace':
        arr = _view(fd, op)
        if arr.flags.writeable:
            _edit(arr, op)
        else:           # numpy refuses (arrays that came out of a pandas frame are read-only): copy, edit, assign
            arr = np.array(arr)
            _edit(arr, op)
            _attr(fd, fam, key).data = arr
            return 'array returned by .data is read-only: copied, edited, assigned through the setter'
    elif o == 'caller':             # the array the caller handed to femio when the object was constructed
        arr = keep.get((fam, key))
        if arr is None or not arr.flags.writeable:
            raise HistoryError('no caller array')
        _edit(arr, op)
    elif o == 'setter':
        arr = _mat(op['data'], fam)
        _attr(fd, fam, key).data = arr
        if op.get('alias'):         # ... and goes on using its array
            _edit(arr, {**op['alias'], 'fam': fam})
    elif o == 'loc':
        a, d, sel, via = _attr(fd, fam, key), _fmat(op['data']), op['sel'], op['via']
        if via == 'loc':
            a.loc[sel].data = d
        elif via == 'loc-scalar':
            a.loc[sel[0]].data = d
        elif via == 'iloc':
            a.iloc[sel].data = d
        elif via == 'iloc-slice':
            a.iloc[sel[0]:sel[1]].data = d
        else:
            raise ValueError(via)
    elif o == 'update':
        ids, d = np.array(op['ids']), _fmat(op['data'])
        if op['via'] == 'update_data':
            attrs = fd.elemental_data if fam == 'elem' else fd.nodal_data
            attrs.update_data(ids, {'NODE' if fam == 'nodes' else key: d}, allow_overwrite=True)
        else:
            _attr(fd, fam, key).update(ids, d, allow_overwrite=True)
    elif o == 'overwrite':
        attrs = fd.elemental_data if fam == 'elem' else fd.nodal_data
        if op.get('ids') is None:
            attrs.overwrite(key, _fmat(op['data']))
        else:
            attrs.overwrite(key, _fmat(op['data']), ids=np.array(op['ids']))
    elif o == 'pop':
        (fd.elemental_data if fam == 'elem' else fd.nodal_data).pop(key)
    elif o == 'add':
        attach(fd, fam, from_json_var(op['var']), keep)
    elif o == 'elements.update':     # replace whole per-type blocks (same element ids; rows re-ordered / re-connected)
        fd.elements.update({t: FEMAttribute(t, ids=np.array(b['ids']), data=np.array(b['conn']), silent=True)
                            for t, b in op['blocks'].items()})
    elif o == 'elem.update':         # the same for the per-type blocks of an elemental variable
        a = fd.elemental_data[key]
        a.update({t: FEMAttribute(a.name, ids=np.array(b['ids']), data=_fmat(b['data']), silent=True)
                  for t, b in op['blocks'].items()})
    elif o == 'renumber-nodes':
        m = {int(a): int(b) for a, b in op['map']}
        seen = set()
        for a in [fd.nodes] + list(fd.nodal_data.values()):
            if id(a) not in seen:
                seen.add(id(a))
                a.ids = np.array([m[int(i)] for i in a.ids])
        new = {t: np.array([[m[int(n)] for n in row] for row in b.data]) for t, b in fd.elements.items()}
        if op['conn_via'] == 'setter' and len(new) == 1:
            fd.elements.data = list(new.values())[0]
        else:
            fd.elements.update({t: FEMAttribute(t, ids=np.array(fd.elements[t].ids), data=c, silent=True)
                                for t, c in new.items()})
    elif o == 'renumber-elements':
        m = {int(a): int(b) for a, b in op['map']}
        fd.elements.update({t: FEMAttribute(t, ids=np.array([m[int(i)] for i in b.ids]), data=np.array(b.data), silent=True)
                            for t, b in fd.elements.items()})
        for k, v in list(fd.elemental_data.items()):
            fd.elemental_data.overwrite(k, np.array(v.data, dtype=float), ids=np.array([m[int(i)] for i in v.ids]))
    else:
        raise ValueError(o)
    return None


def from_json_var(v):
    return {**v, 'data': [[dec_f(x) for x in r] for r in v['data']]}


def _is2d(a):
    return len(np.shape(a.data)) == 2


def _one_block(a):
    return not isinstance(a, dict) or a.get_n_element_type() == 1


def _hexrows(rnd, n, w):
    return [[enc_f(rand_float(rnd)) for _ in range(w)] for _ in range(n)]


def _some_ids(rnd, ids):
    k = rnd.randint(1, min(len(ids), rnd.choice([1, 2, 3, len(ids)])))
    return rnd.sample(ids, k)


def pick_op(rnd, fd, keep, allow_caller):
    """one modification with concrete arguments, chosen by looking at the object's current public state; every kind
    leaves all public views of the object in agreement on the unchanged tree (`incoherent`)"""
    nod = [('nodal', k) for k, v in fd.nodal_data.items() if _is2d(v) and v is not fd.nodes]
    ele = [('elem', k) for k, v in fd.elemental_data.items() if _is2d(v) and _one_block(v)]
    node_paths = [('nodes', None)] + ([('nodal', 'NODE')] if fd.nodal_data.data.get('NODE') is fd.nodes else [])
    single = fd.elements.get_n_element_type() == 1
    kind = rnd.choice(['inplace'] * 7 + ['setter'] * 2 + ['loc'] * 2 + ['update'] * 2 + ['overwrite', 'caller', 'dict', 'elements',
                                                                                           'elem.update', 'renumber'])
    floats = [rnd.choice(node_paths)] * 2 + nod * 2 + ele * 2

    def shape(t):
        return np.shape(_attr(fd, *t).data)
    if kind in ('inplace', 'caller'):
        t = rnd.choice(floats + ([('conn', None)] if single else []))
        if kind == 'caller':
            if not allow_caller:
                return None
            t = ('nodes', None) if t[1] == 'NODE' else (('conn', list(fd.elements.keys())[0]) if t[0] == 'conn' else t)
            if keep.get(t) is None:
                return None
            n, w = keep[t].shape
        else:
            n, w = shape(t)
        op = {'op': kind, 'fam': t[0], 'key': t[1], 'how': rnd.choice(['cell', 'cell', 'row=', 'row+=', 'all='])}
        if kind == 'inplace':
            op['via'] = rnd.choice(['data', 'data', 'values', 'get_attribute_data'])
        if t[0] == 'conn':
            nids = [int(i) for i in fd.nodes.ids]
            op['how'] = 'cell' if op['how'] in ('row+=', 'all=') else op['how']
            if op['how'] == 'cell':
                op['cells'] = [[rnd.randrange(n), rnd.randrange(w), rnd.choice(nids)] for _ in range(rnd.randint(1, 2))]
            else:
                op.update(row=rnd.randrange(n), vals=rnd.sample(nids, w))
            return op
        if op['how'] == 'cell':
            op['cells'] = [[rnd.randrange(n), rnd.randrange(w), enc_f(rand_float(rnd, .5))] for _ in range(rnd.randint(1, 3))]
        elif op['how'] in ('row=', 'row+='):
            op.update(row=rnd.randrange(n), vals=[enc_f(rand_float(rnd) if op['how'] == 'row=' else float(rnd.randint(-3, 3)) / 4)
                                                  for _ in range(w)])
        else:
            op['data'] = _hexrows(rnd, n, w)
        return op
    if kind == 'setter':
        t = rnd.choice(floats + ([('conn', None)] if single else []))
        n, w = shape(t)
        if t[0] == 'conn':
            b = list(fd.elements.values())[0]
            rows = [[int(x) for x in r] for r in b.data]
            rnd.shuffle(rows)
            return {'op': 'setter', 'fam': 'conn', 'key': None, 'data': rows}
        if t[0] != 'nodes' and t[1] != 'NODE' and rnd.random() < .4:
            w = rnd.choice([1, 2, 3, 5, 8])      # the width of a variable may change
        op = {'op': 'setter', 'fam': t[0], 'key': t[1], 'data': _hexrows(rnd, n, w)}
        if rnd.random() < .4:
            op['alias'] = {'how': 'cell', 'cells': [[rnd.randrange(n), rnd.randrange(w), enc_f(rand_float(rnd, .5))]]}
        return op
    if kind == 'loc':
        t = rnd.choice([rnd.choice(node_paths)] + nod * 2 + [('elem', k) for _, k in ele if not isinstance(fd.elemental_data[k], dict)])
        a = _attr(fd, *t)
        n, w = shape(t)
        ids = [int(i) for i in a.ids]
        via = rnd.choice(['loc', 'loc', 'loc-scalar', 'iloc', 'iloc-slice'])
        if via == 'loc':
            sel = _some_ids(rnd, ids)
        elif via == 'loc-scalar':
            sel = [rnd.choice(ids)]
        elif via == 'iloc':
            sel = rnd.sample(range(n), rnd.randint(1, min(n, 3)))
        else:
            i = rnd.randrange(n)
            sel = [i, rnd.randint(i + 1, n)]
        k = sel[1] - sel[0] if via == 'iloc-slice' else len(sel)
        return {'op': 'loc', 'fam': t[0], 'key': t[1], 'via': via, 'sel': sel, 'data': _hexrows(rnd, k, w)}
    if kind == 'update':
        t = rnd.choice([rnd.choice(node_paths)] + nod * 2 + ele * 2)
        via = rnd.choice(['attr.update', 'update_data'])
        if t == ('nodal', 'NODE'):
            t, via = ('nodes', None), 'update_data'
        elif t[0] == 'nodes':
            via = 'attr.update'
        ids = _some_ids(rnd, [int(i) for i in _attr(fd, *t).ids])
        return {'op': 'update', 'fam': t[0], 'key': t[1], 'via': via, 'ids': ids, 'data': _hexrows(rnd, len(ids), shape(t)[1])}
    if kind == 'overwrite':
        cand = nod + ele + [('elem', k) for k, v in fd.elemental_data.items() if _is2d(v) and not _one_block(v)]
        if not cand:
            return None
        t = rnd.choice(cand)
        a = _attr(fd, *t)
        n, w = shape(t)
        ids = None
        if not _one_block(a) or rnd.random() < .5:
            ids = private_order(rnd, [int(i) for i in a.ids], rnd.choice(ORDER_CLASSES))
        if rnd.random() < .3:
            w = rnd.choice([1, 2, 3, 6])
        return {'op': 'overwrite', 'fam': t[0], 'key': t[1], 'ids': ids, 'data': _hexrows(rnd, n, w)}
    if kind == 'dict':
        fam = rnd.choice(['nodal', 'elem'])
        attrs = fd.nodal_data if fam == 'nodal' else fd.elemental_data
        keys = [k for k in attrs.keys() if k != 'NODE']
        if keys and rnd.random() < .5:
            return {'op': 'pop', 'fam': fam, 'key': rnd.choice(keys)}
        ids = [int(i) for i in (fd.nodes.ids if fam == 'nodal' else fd.elements.ids)]
        name = rand_names(rnd, 1, taken=list(attrs.keys()))[0]
        how = rnd.choice(['update_data', 'setitem', 'update'] + (['generate'] if fam == 'elem' else []))
        own = private_order(rnd, ids, rnd.choice(ORDER_CLASSES))
        return {'op': 'add', 'fam': fam, 'key': name,
                'var': {'name': name, 'ids': own, 'how': how, 'data': _hexrows(rnd, len(ids), rnd.choice([1, 2, 3, 4]))}}
    if kind == 'elements':
        ts = rnd.sample(list(fd.elements.keys()), rnd.randint(1, min(2, len(fd.elements.keys()))))
        nids = [int(i) for i in fd.nodes.ids]
        blocks = {}
        for t in ts:
            b = fd.elements[t]
            rows = [[int(i), [int(x) for x in c]] for i, c in zip(b.ids, b.data)]
            rnd.shuffle(rows)
            if rnd.random() < .6:
                r = rnd.choice(rows)
                r[1] = rnd.sample(nids, len(r[1]))
            blocks[t] = {'ids': [i for i, _ in rows], 'conn': [c for _, c in rows]}
        return {'op': 'elements.update', 'blocks': blocks}
    if kind == 'elem.update':
        cand = [k for k, v in fd.elemental_data.items() if isinstance(v, dict) and _is2d(v)]
        if not cand:
            return None
        key = rnd.choice(cand)
        a = fd.elemental_data[key]
        w = np.shape(a.data)[1]
        blocks = {}
        for t in rnd.sample(list(a.keys()), rnd.randint(1, len(a.keys()))):
            ids = [int(i) for i in a[t].ids]
            rnd.shuffle(ids)
            blocks[t] = {'ids': ids, 'data': _hexrows(rnd, len(ids), w)}
        return {'op': 'elem.update', 'key': key, 'blocks': blocks}
    if kind == 'renumber':
        if rnd.random() < .5:
            ids = [int(i) for i in fd.nodes.ids]
            if any(not isinstance(v, dict) and sorted(int(i) for i in v.ids) != sorted(ids) for v in fd.nodal_data.values()):
                return None
            o = 'renumber-nodes'
        else:
            ids = [int(i) for i in fd.elements.ids]
            if any(not _is2d(v) for v in fd.elemental_data.values()):
                return None
            o = 'renumber-elements'
        style = rnd.choice(['rotate', 'rotate', 'offset', 'reverse-rank'])
        s = sorted(ids)
        if style == 'rotate':       # the SAME id set bound to other rows: nothing that is keyed on ids may survive
            k = rnd.randrange(1, len(s)) if len(s) > 1 else 0
            m = dict(zip(s, s[k:] + s[:k]))
        elif style == 'offset':
            d = rnd.choice([1, 7, 1000])
            m = {i: i + d for i in s}
        else:
            m = dict(zip(s, s[::-1]))
        return {'op': o, 'style': style, 'map': [[i, m[i]] for i in ids], 'conn_via': rnd.choice(['setter', 'update'])}
    return None


def start_object(ctx, case, keep):
    """the object at the start of the history: as constructed, or as read from the UCD file of the constructed object"""
    from femio import FEMData
    h = case.get('hist') or {}
    d = ctx.tmp / 'c04'
    d.mkdir(exist_ok=True)
    for f in d.iterdir():
        f.unlink()
    fd, err = real(build, case, keep)
    if err:
        raise RuntimeError('harness: could not build the FEMData: ' + err)
    if h.get('via_file'):
        _, err = real(fd.write, 'ucd', d / 'first.inp')
        fd, err = (None, err) if err else real(FEMData.read_files, 'ucd', d / 'first.inp')
        if err:
            raise HistoryError('write / read before the history raises ' + err)
        keep.clear()
    if h.get('pre_write'):
        fd.c04_state_at_earlier_write, _ = real(snapshot, fd)
        _, err = real(fd.write, 'ucd', d / ('mesh.inp' if h['pre_write'] == 'same' else 'earlier.inp'))
        if err:
            raise HistoryError('the earlier write raises ' + err)
    return fd


def prepare(ctx, case):
    """the object just before the final write"""
    keep = {}
    fd = start_object(ctx, case, keep)
    for k, op in enumerate((case.get('hist') or {}).get('mods', [])):
        _, err = real(apply_op, fd, op, keep)
        if err:
            raise HistoryError(f'modification {k} ({op["op"]}) raises {err}')
    return fd


def gen_history(ctx, rnd, case):
    """adds case['hist']; the modifications are chosen against a live object so that their arguments are concrete.
    -> that object in its final state (= what `prepare(ctx, case)` rebuilds from the description), or None"""
    h = {'via_file': rnd.random() < .14, 'pre_write': rnd.choice([None, None, None, 'same', 'other']),
         'writes': rnd.choice([1, 1, 2]), 'second': rnd.choice(['other', 'same-overwrite']), 'mods': []}
    case['hist'] = h
    n_ops = rnd.choice([0, 1, 1, 2, 2, 3, 4])
    if n_ops == 0:
        h['writes'] = 2
    keep = {}
    try:
        fd = start_object(ctx, case, keep)
    except HistoryError:
        h['via_file'] = False
        h['pre_write'] = None
        return None
    tries = 0
    while len(h['mods']) < n_ops and tries < 12:
        tries += 1
        op, err = real(pick_op, rnd, fd, keep, not h['via_file'])
        if err:
            ctx.count('history: generator could not look at the object (' + err.split(':')[0] + ')')
            return None
        if op is None:
            continue
        note, err = real(apply_op, fd, op, keep)
        if err:     # femio refuses this modification in the current state: the history ends before it
            ctx.count(f'history: modification refused by femio, dropped ({hist_label(op)}: {err[:60]})')
            return None
        if note:
            ctx.count('history: ' + note)
        h['mods'].append(op)
    return fd


def hist_label(op):
    o = op['op']
    if o in ('inplace', 'caller'):
        return f'{o}:{op["fam"]}:{op["how"]}'
    if o in ('setter', 'overwrite'):
        return f'{o}:{op["fam"]}' + ('+alias' if op.get('alias') else '') + ('+ids' if op.get('ids') else '')
    if o in ('loc', 'update'):
        return f'{o}:{op["fam"]}:{op["via"]}'
    if o in ('pop', 'add'):
        return f'{o}:{op["fam"]}'
    if o.startswith('renumber'):
        return f'{o}:{op["style"]}'
    return o


# ------------------------------------------------------------------ model input = what the writer looks at

def _rows(a):
    return [[float(x) for x in r] for r in a.data]


def snapshot(fd):
    """the public state of the object the property talks about, copied out of the object (plain Python values): `ids` /
    `data` of the nodes, of every per-type element block (canonical type order, as `elements.items()` gives them), the
    aggregate element ids, and of every 2-D nodal / elemental variable in dict order"""
    def tabs(attrs):
        return [[k, [int(i) for i in v.ids], _rows(v)] for k, v in attrs.items() if len(np.shape(v.data)) == 2]
    return {'nodes': [[int(i) for i in fd.nodes.ids], _rows(fd.nodes)],
            'blocks': {t: [[int(i), [int(n) for n in c]] for i, c in zip(b.ids, b.data)] for t, b in fd.elements.items()},
            'eids': [int(i) for i in fd.elements.ids],
            'nodal': tabs(fd.nodal_data), 'elem': tabs(fd.elemental_data)}


def snap_bits(snap):
    def tb(t):
        return [t[0], t[1], [[bits(x) for x in r] for r in t[2]]]
    return {'nodes': [snap['nodes'][0], [[bits(x) for x in r] for r in snap['nodes'][1]]], 'blocks': snap['blocks'],
            'eids': snap['eids'], 'nodal': [tb(t) for t in snap['nodal']], 'elem': [tb(t) for t in snap['elem']]}


def incoherent(fd, snap):
    """-> None, or why the public views of the object do not describe ONE mesh (aggregate view of the elements / of an
    elemental variable != its per-type blocks, NODE variable != coordinates, a 2-D variable that does not cover the
    mesh's ids): such an object is outside the property (separately labelled stream, nothing is reported)"""
    by_id = {e: c for b in snap['blocks'].values() for e, c in b}
    n = sum(len(b) for b in snap['blocks'].values())
    order = [e for b in snap['blocks'].values() for e, _ in b]
    if len(snap['blocks']) > 1:
        order.sort()
    if len(by_id) != n or snap['eids'] != order:
        return 'element ids of the aggregate view != ids of the per-type blocks'
    agg = {int(i): [int(x) for x in c] for i, c in zip(fd.elements.ids, fd.elements.data)}
    if agg != by_id:
        return 'connectivity of the aggregate view != per-type blocks'
    for k, v in fd.elemental_data.items():
        if isinstance(v, dict) and len(np.shape(v.data)) == 2:
            blk = {int(i): tuple(bits(x) for x in r) for b in v.values() for i, r in zip(b.ids, b.data)}
            if blk != {int(i): tuple(bits(x) for x in r) for i, r in zip(v.ids, v.data)}:
                return 'aggregate view of an elemental variable != its per-type blocks'
    nb = snap_bits(snap)
    for k, ids, rows in nb['nodal']:
        if k == 'NODE' and dict(zip(ids, map(tuple, rows))) != dict(zip(nb['nodes'][0], map(tuple, nb['nodes'][1]))):
            return 'NODE variable != coordinates'
        if sorted(ids) != sorted(snap['nodes'][0]):
            return 'nodal variable whose ids are not the node ids'
    for k, ids, rows in snap['elem']:
        if sorted(ids) != sorted(snap['eids']):
            return 'elemental variable whose ids are not the element ids'
    if len(set(snap['nodes'][0])) != len(snap['nodes'][0]):
        return 'duplicate node ids'
    return None


def content_of(snap):
    """the snapshot as a case description: `build` makes an independently constructed FRESH object with the same content"""
    keys = [k for k, _, _ in snap['nodal']]
    return {'nodes': [[i, list(p)] for i, p in zip(*snap['nodes'])], 'blocks': snap['blocks'],
            'nodal_vars': [{'name': k, 'ids': ids, 'how': 'setitem', 'data': rows} for k, ids, rows in snap['nodal'] if k != 'NODE'],
            'elem_vars': [{'name': k, 'ids': ids, 'how': 'setitem', 'data': rows} for k, ids, rows in snap['elem']],
            'pop_node': 'NODE' not in keys, 'node_pos': keys.index('NODE') if 'NODE' in keys else None,
            'kind': 'snapshot', 'order': '-', 'id_style': '-'}


def model_fem(snap):
    """protocol encoding of the FEMData as the writer sees it (from a snapshot of its public state): every 2-D variable
    with its own ids and rows"""
    t = [C.enc_list(zip(*snap['nodes']), lambda r: f'{r[0]} {C.enc_list(r[1], ftok)}')]
    blocks = [(G.ELEMENT_TYPES.index(k), v) for k, v in snap['blocks'].items()]
    t.append(C.enc_list(blocks, lambda b: f'{b[0]} ' + C.enc_list(b[1], lambda e: f'{e[0]} {C.enc_list(e[1])}')))

    def tabs(vs):
        return C.enc_list(vs, lambda v: ' '.join([
            C.esc(v[0]), str(len(v[2][0]) if v[2] else 0), C.enc_list(v[1]), C.enc_list(v[2], lambda r: C.enc_list(r, ftok))]))
    t.append(tabs(snap['nodal']))
    t.append(tabs(snap['elem']))
    return ' '.join(t)


def dec_read(rep):
    t = C.Toks(rep)
    if t.tok() != 'ok':
        raise RuntimeError('driver: ' + rep[:200])
    if t.nat() == 0:
        return None

    def idrow():
        i = t.nat()
        return i, t.lst(t.tok)
    nodes = t.lst(idrow)
    blocks = t.lst(lambda: (t.nat(), t.lst(lambda: (t.nat(), t.lst(t.nat)))))

    def tabs():
        # one table per variable, cut out of the rows by the MODEL (`readTables`, the function of the theorems)
        out = {}
        for _ in range(t.nat()):
            name, w = C.unesc(t.tok()), t.nat()
            ids = t.lst(t.nat)
            rows = t.lst(lambda: t.lst(lambda: bits(float(C.unesc(t.tok())))))
            assert all(len(r) == w for r in rows) or not rows
            out[name] = (ids, rows)
        return out
    nodal = tabs()
    elem = tabs()
    assert t.done()
    return {'nodes': ([i for i, _ in nodes], [[bits(float(x)) for x in r] for _, r in nodes]),
            'blocks': {G.ELEMENT_TYPES[ty]: [(i, c) for i, c in es] for ty, es in blocks},
            'nodal': nodal, 'elem': elem}


def model_write(ctx, flag, enc):
    """-> (hypotheses of the character-level theorems hold on this input, the file text of the model writer)"""
    t = C.Toks(ctx.driver.ask(f'c04.write {flag} ' + enc))
    if t.tok() != 'ok':
        raise RuntimeError('driver: c04.write failed')
    hyp = t.nat()
    text = C.unesc(t.tok())
    assert t.done()
    return bool(hyp), text


def check_ws_table(ctx):
    """tie of the lexer's whitespace class: `Femio.Text.wsCodes` = the code points with str.isspace() = the regex whitespace class"""
    import re
    t = C.Toks(ctx.driver.ask('c04.ws'))
    t.tok()
    model = t.lst(t.nat)
    py = [c for c in range(0x110000) if chr(c).isspace()]
    rx = [c for c in range(0x3100) if re.fullmatch(r'\s', chr(c))]
    if model != py or rx != [c for c in py if c < 0x3100]:
        ctx.disagree('whitespace class of the model lexer != str.isspace / regex whitespace class', {}, py, model)
    ctx.count('tie: whitespace table checked')


# ------------------------------------------------------------------ observation of the real implementation

def tab(attr):
    return [int(i) for i in attr.ids], [[bits(x) for x in row] for row in attr.data]


def observe(fd):
    return {'nodes': tab(fd.nodes),
            'blocks': {k: [(int(i), [int(n) for n in c]) for i, c in zip(v.ids, v.data)] for k, v in fd.elements.items()},
            'nodal': {k: tab(v) for k, v in fd.nodal_data.items()},
            'elem': {k: tab(v) for k, v in fd.elemental_data.items()}}


def keyed(t):
    return {i: tuple(r) for i, r in zip(*t)}


def real(f, *a, **k):
    import warnings
    try:
        with warnings.catch_warnings():
            warnings.simplefilter('ignore')
            return G.quiet(f, *a, **k), None
    except Exception as e:  # noqa
        return None, f'{type(e).__name__}: {str(e)[:160]}'


def brief(case):
    h = case.get('hist')
    return {'kind': case['kind'], 'order': case['order'], 'id_style': case['id_style'], 'n_nodes': len(case['nodes']),
            'n_elems': sum(len(b) for b in case['blocks'].values()), 'types': list(case['blocks']),
            'nodal_vars': [(v['name'], len(v['data'][0])) for v in case['nodal_vars']],
            'elem_vars': [(v['name'], len(v['data'][0]), v['how']) for v in case['elem_vars']],
            'pop_node': case['pop_node'],
            'key!=FEMAttribute.name': {v['name']: [v['attr'], v['how']] for v in case['nodal_vars'] + case['elem_vars']
                                       if v.get('attr', v['name']) != v['name']},
            **({'history': {'object read from a UCD file first': h['via_file'], 'written before the modifications': h['pre_write'],
                            'modifications': [hist_label(o) for o in h['mods']], 'final writes': h['writes']}} if h else {})}


def compare(content, obs, fd, report, pre=''):
    """the property: what was read (obs) vs the content that was written (a case description: construction data of an
    object written as constructed, the snapshot of the public state just before write() otherwise)"""
    n_before = [0]

    def rep(sig, what, observed):
        n_before[0] += 1
        report(pre + sig, what, observed)
    # coordinates by node id
    want = {i: tuple(bits(x) for x in p) for i, p in content['nodes']}
    got = keyed(obs['nodes'])
    if got != want:
        bad = [i for i in want if got.get(i) != want[i]][:3]
        rep('coordinates-differ', f'coordinates of node {bad} read back differ / node missing',
            {'ids': bad, 'read': [got.get(i) for i in bad], 'written': [want[i] for i in bad],
             'extra_nodes': sorted(set(got) - set(want))[:3]})
    # elements: type and connectivity by id (tet2 -> tet, first four nodes)
    wante = {}
    for t, b in content['blocks'].items():
        for e, c in b:
            wante[e] = ('tet', tuple(c[:4])) if t == 'tet2' else (t, tuple(c))
    gote = {i: (t, tuple(c)) for t, b in obs['blocks'].items() for i, c in b}
    if gote != wante:
        bad = [e for e in wante if gote.get(e) != wante[e]][:3]
        sig = 'tet2-not-corner-tet' if any(t == 'tet2' for t in content['blocks']) and all(
            gote.get(e) == wante[e] for t, b in content['blocks'].items() if t != 'tet2' for e, _ in b) else 'elements-differ'
        rep(sig, f'elements {bad} read back with another type / connectivity, or missing / extra elements',
            {'ids': bad, 'read': [gote.get(e) for e in bad], 'written': [wante[e] for e in bad],
             'extra': sorted(set(gote) - set(wante))[:3]})
    # variables (own = the variable's own id order inside the FEMData that was written)
    mesh_ids = {'nodal': [int(i) for i in fd.nodes.ids], 'elem': [int(i) for i in fd.elements.ids]}
    attrs = {'nodal': fd.nodal_data, 'elem': fd.elemental_data}
    for key, vars_, extra in (('nodal', content['nodal_vars'], {'NODE'}), ('elem', content['elem_vars'], set())):
        names = {v['name'] for v in vars_}
        if set(obs[key]) - extra != names:
            rep(f'variables-differ:{key}', f'{key} variables read {sorted(obs[key])} != written {sorted(names)}',
                {'read': sorted(obs[key]), 'written': sorted(names)})
            continue
        for v in vars_:
            want = {i: tuple(bits(x) for x in r) for i, r in zip(v['ids'], v['data'])}
            got = keyed(obs[key][v['name']])
            if got != want:
                bad = [i for i in want if got.get(i) != want[i]][:3]
                own = [int(i) for i in attrs[key][v['name']].ids] if v['name'] in attrs[key] else mesh_ids[key]
                if not pre and own != mesh_ids[key] and sorted(own) == sorted(mesh_ids[key]):
                    rep(f'positional-binding:{key}:{v["how"]}',
                        f'{key} variable {v["name"]!r} (attached with {v["how"]}; its own id order {own[:4]}.. differs from '
                        f'the mesh\'s {mesh_ids[key][:4]}..) is not written by id: the value read back under id {bad[0]} '
                        f'is not the value the variable holds for that id', {'variable': v['name'], 'ids': bad, 'read': [got.get(i) for i in bad],
                                                   'written': [want[i] for i in bad], 'variable_ids': own[:6],
                                                   'mesh_ids': mesh_ids[key][:6]})
                else:
                    rep(f'values-differ:{key}', f'{key} variable {v["name"]!r}: the value read under id {bad[0]} is not '
                        f'the value it had ' + ('just before write()' if pre else 'before writing'),
                        {'variable': v['name'], 'ids': bad, 'read': [got.get(i) for i in bad], 'written': [want[i] for i in bad]})
        if key == 'nodal' and 'NODE' in obs[key] and keyed(obs[key]['NODE']) != keyed(obs['nodes']):
            rep('values-differ:nodal', 'nodal variable NODE differs from the coordinates', {})
    return n_before[0]


def read_back(path):
    from femio import FEMData
    rd, err = real(FEMData.read_files, 'ucd', path)
    return (None, err) if err else (observe(rd), None)


def oracle(ctx, case, report, prepared=None):
    """property on the real API: [history] -> write -> read -> compare.  An object written as constructed is compared
    with the data it was built from; an object with a history with the snapshot of its public state taken just before
    write() -- and its file with the file of an independently constructed fresh object of the same content, with the file
    of a second write of the same object, and the object's state after write() with the state before.
    -> dict(fd, snap, text, obs, notes) / dict(outside=why)"""
    h = case.get('hist')
    try:
        fd = prepared if prepared is not None else prepare(ctx, case)
    except HistoryError as e:
        return {'outside': 'history not applicable: ' + str(e), 'text': None}
    snap, err = real(snapshot, fd)
    if err:
        raise RuntimeError('harness: could not look at the FEMData: ' + err)
    out = {'fd': fd, 'snap': snap, 'text': None, 'obs': None, 'notes': []}
    pre = 'history:' if h else ''
    if h:
        why = incoherent(fd, snap)
        if why:
            return {'outside': 'public views of the object disagree: ' + why, 'text': None}
    content = content_of(snap) if h else case
    d = ctx.tmp / 'c04'
    d.mkdir(exist_ok=True)
    path = d / 'mesh.inp'
    same = bool(h) and h.get('pre_write') == 'same'
    if path.exists() and not same:
        path.unlink()
    _, err = real(fd.write, 'ucd', path, **({'overwrite': True} if same else {}))
    if err:
        report(pre + 'write-raises', f'write("ucd") raises {err}', {'error': err})
        return out
    text = out['text'] = path.read_text()
    obs, err = read_back(path)
    if err:
        report(pre + 'read-raises', f'read_files("ucd") of the written file raises {err}', {'error': err})
        return out
    out['obs'] = obs
    n_bad = compare(content, obs, fd, report, pre)
    # write() leaves the object as it was
    after, err = real(snapshot, fd)
    if err or snap_bits(after) != snap_bits(snap):
        a, b = snap_bits(snap), (snap_bits(after) if not err else {})
        report(pre + 'write-changes-object', 'the public state (ids / data of nodes, elements, variables) of the object after '
               'write("ucd") differs from the state before', {'parts': [k for k in a if a[k] != b.get(k)], 'error': err})
    if not h:
        return out
    # the same object written a second time: the same file
    if h.get('writes') == 2:
        p2 = path if h.get('second') == 'same-overwrite' else d / 'second.inp'
        _, err = real(fd.write, 'ucd', p2, overwrite=True)
        if err:
            report(pre + 'second-write:write-raises', f'the second write("ucd") of the same object raises {err}', {'error': err})
        elif p2.read_text() != text:
            obs2, err = read_back(p2)
            if err:
                report(pre + 'second-write:read-raises', f'the file of the second write cannot be read: {err}', {'error': err})
            elif not compare(content, obs2, fd, report, pre + 'second-write:'):
                out['notes'].append(('second write of the same object gives another file (both read back exactly)',
                                     text[:300], p2.read_text()[:300]))
    # an independently constructed fresh object with the same content: the same file (every second history when the model
    # writer is there to say what the bytes of the file must be; always when something is wrong or there is no model)
    if ctx.driver is not None and not n_bad and ctx.evaluations % 2:
        return out
    fresh, err = real(build, content)
    if err:
        raise RuntimeError('harness: could not build the fresh FEMData: ' + err)
    p3 = d / 'fresh.inp'
    _, err = real(fresh.write, 'ucd', p3)
    if err:
        report('fresh:write-raises', f'write("ucd") of a fresh object raises {err}', {'error': err, 'content': to_json(content)})
    elif p3.read_text() != text:
        # which of the two files is wrong is decided by the property (read back vs content), not by the byte difference
        def rep3(sig, what, o):
            report('fresh:' + sig, what + ' [fresh object with the content of the snapshot]', {**o, 'content': to_json(content)})
        obs3, err = read_back(p3)
        if err:
            rep3('read-raises', f'read_files("ucd") raises {err}', {'error': err})
        elif not compare(content, obs3, fresh, rep3) and not n_bad:
            out['notes'].append(('file of the modified object != file of a fresh object with the same content (both read '
                                 'back exactly)', text[:300], p3.read_text()[:300]))
    return out


CFGS = {'fixed': 1, 'upstream': 0}


def run_case(ctx, case, cfg_mismatch, stream='main', prepared=None):
    # all streams (main, own-id-order, with or without a history) are inside the property's quantifier: failures are
    # reported through ctx.fail; objects whose public views disagree with each other are not (labelled stream `outside`)
    def report(sig, what, observed):
        ctx.fail(sig, what, to_json(case), observed)
        if stream != 'main':
            ctx.count(f'{stream}: {sig}')
    found = []
    r = oracle(ctx, case, lambda *a: found.append(a), prepared)
    if prepared is not None and (found or ctx.evaluations % 12 == 0):
        # `prepared` is the live object the history was generated on; a replay has the description only: failures are
        # reported as they reproduce from the description (and every 12th case, if it has a history, is rebuilt from it as a self-check)
        again = []
        r2 = oracle(ctx, case, lambda *a: again.append(a))
        if not r.get('outside') and (r2.get('outside') or snap_bits(r2['snap']) != snap_bits(r['snap'])
                                     or sorted(a[0] for a in again) != sorted(a[0] for a in found)):
            raise RuntimeError('harness: the description of a history does not reproduce the object it was generated on: '
                               + str(brief(case)))
        ctx.count('history: rebuilt from its description (self-check of the replay path)')
    for a in found:
        report(*a)
    if r.get('outside'):
        ctx.count('outside (not reported): ' + r['outside'].split(':')[0] + ': ' + r['outside'].split(':')[1].strip()[:60])
        return
    for what, a, b in r['notes']:
        ctx.disagree(f'{stream}: {what}', brief(case), a, b)
    text, obs = r['text'], r['obs']
    if ctx.driver is None or text is None:
        return
    # (a) writer: the characters of the real file vs the characters `fileText` of the model writer, for each Cfg
    # (exactly one must reproduce every file); the model is fed the state of the object just BEFORE write()
    enc = model_fem(r['snap'])
    for name, flag in CFGS.items():
        hyp, mtext = model_write(ctx, flag, enc)
        if name == 'fixed':
            ctx.count('hypotheses of C04_roundtrip_chars / C04_own_order_chars hold (femOKB, meshOKB): ' + ('yes' if hyp else 'NO'))
            if not hyp:
                ctx.disagree(f'{stream}: generated case violates the Boolean hypotheses of the character-level theorems',
                             brief(case), 'in-quantifier input', 'femOKB && meshOKB = false')
        if mtext != text:
            mlines, rlines = mtext.split('\n'), text.split('\n')
            k = next((i for i, (a, b) in enumerate(zip(mlines, rlines)) if a != b), min(len(mlines), len(rlines)))
            cfg_mismatch[name].append((f'{stream}: written file != model writer', brief(case),
                                       {'line': k, 'text': rlines[k:k + 2], 'n_lines': len(rlines)},
                                       {'line': k, 'text': mlines[k:k + 2], 'n_lines': len(mlines)}))
    # (a') session model (`Model/UcdHist.lean`, HCfg.tree): every file the history wrote holds, at the end, what the
    # model session holds for it (an earlier file at another path is still the earlier state, a re-written path the
    # final one, a second write the same characters)
    h = case.get('hist')
    if h and (h.get('pre_write') or h.get('writes') == 2):
        steps, paths = [], {'mesh.inp': 0, 'earlier.inp': 1, 'second.inp': 2}
        pre_snap = getattr(r['fd'], 'c04_state_at_earlier_write', None)
        if h.get('pre_write') and pre_snap is not None:
            steps += ['a ' + model_fem(pre_snap), 'w 0' if h['pre_write'] == 'same' else 'w 1']
        steps += [('i ' if steps else 'a ') + enc, 'w 0']
        if h.get('writes') == 2:
            steps.append('w 0' if h.get('second') == 'same-overwrite' else 'w 2')
        t = C.Toks(ctx.driver.ask('c04.session 1 ' + C.enc_list(steps, lambda x: x)))
        if t.tok() != 'ok':
            raise RuntimeError('driver: c04.session failed')
        model_files = dict(t.lst(lambda: (t.nat(), C.unesc(t.tok()))))
        real_files = {paths[f.name]: f.read_text() for f in (ctx.tmp / 'c04').iterdir() if f.name in paths}
        ctx.count('tie: session model vs the files on disk after the history')
        if model_files != real_files:
            bad = sorted(k for k in set(model_files) | set(real_files) if model_files.get(k) != real_files.get(k))
            names = {v: k for k, v in paths.items()}
            ctx.disagree(f'{stream}: files after the history != session model (HCfg.tree)', brief(case),
                         {names[k]: (real_files.get(k) or '<absent>')[:200] for k in bad},
                         {names[k]: (model_files.get(k) or '<absent>')[:200] for k in bad})
    # (b) reader: real reader vs model reader (`readText` + `readTables`) on the characters of the real file
    mread = dec_read(ctx.driver.ask('c04.read ' + C.esc(text)))
    if obs is None or mread is None:
        if (obs is None) != (mread is None):
            ctx.disagree(f'{stream}: reader raises / model reader fails', brief(case), obs is None, mread is None)
        return
    impl = {'nodes': obs['nodes'], 'blocks': obs['blocks'],
            'nodal': {k: v for k, v in obs['nodal'].items() if k != 'NODE' or 'NODE' in mread['nodal']},
            'elem': obs['elem']}
    for part in ('nodes', 'blocks', 'nodal', 'elem'):
        if impl[part] != mread[part]:
            ctx.disagree(f'{stream}: real reader != model reader ({part})', brief(case), str(impl[part])[:400],
                         str(mread[part])[:400])
            break


def own_order_families(case):
    """per family: number of distinct row orders (as they are in the built FEMData: generate_elemental_attribute sorts)
    that differ from the mesh order"""
    nids = [i for i, _ in case['nodes']]
    eids = [e for b in case['blocks'].values() for e, _ in b]
    if len(case['blocks']) > 1:
        eids.sort()
    out = {}
    for key, vars_, mesh in (('nodal', case['nodal_vars'], nids), ('elemental', case['elem_vars'], eids)):
        orders = {tuple(sorted(v['ids']) if v['how'] == 'generate' else v['ids']) for v in vars_}
        out[key] = len(orders - {tuple(mesh)})
    return out


def count_renames(ctx, case, stream=''):
    for fam, vars_ in (('nodal', case['nodal_vars']), ('elemental', case['elem_vars'])):
        ren = [v for v in vars_ if v.get('attr', v['name']) != v['name']]
        for v in ren:
            ctx.count(f'{stream}key != FEMAttribute.name: {fam} variable attached by {v["how"]}')
        names = [v.get('attr', v['name']) for v in vars_]
        if len(set(names)) < len(names):
            ctx.count(f'{stream}key != FEMAttribute.name: cases with two {fam} keys sharing one attribute name')
        if any(v['attr'] in {w['name'] for w in vars_} for v in ren):
            ctx.count(f'{stream}key != FEMAttribute.name: cases with a {fam} attribute named like another key')


P_HISTORY, P_HISTORY_OWN = .42, .3


def count_history(ctx, case, stream=''):
    h = case.get('hist')
    ctx.count(f'{stream}history: ' + ('object modified / written before the final write' if h else 'none (written as constructed)'))
    if not h:
        return
    ctx.count(f'{stream}history: number of modifications: {len(h["mods"])}')
    for o in h['mods']:
        ctx.count(f'{stream}history: modification {hist_label(o)}')
    if h['via_file']:
        ctx.count(f'{stream}history: object read from a UCD file, then modified and written (write after read)')
    if h['pre_write']:
        ctx.count(f'{stream}history: object written once before the modifications ({h["pre_write"]} file)')
    if h['writes'] == 2:
        ctx.count(f'{stream}history: final state written twice (second: {h["second"]})')


def run(ctx):
    n_cases =ctx.n(220, 2500) if ctx.driver is not None else ctx.n(400, 3000)
    cfg_mismatch = {c: [] for c in CFGS}
    if ctx.driver is not None:
        check_ws_table(ctx)
    for name, obj in C.corpus_cases(PROP):
        run_case(ctx, from_json(obj['input']), cfg_mismatch)
        ctx.count('corpus')
    for k in range(n_cases):
        case = gen_case(ctx.rng)
        fd = gen_history(ctx, ctx.rng, case) if ctx.rng.random() < P_HISTORY else None
        count_history(ctx, case)
        vals = [x for v in case['nodal_vars'] + case['elem_vars'] for r in v['data'] for x in r] + \
               [x for _, p in case['nodes'] for x in p]
        ctx.case(str(to_json(case)), sample=brief(case),
                 nontrivial=sum(len(b) for b in case['blocks'].values()) >= 2 and bool(case['nodal_vars'] or case['elem_vars']))
        ctx.count('mesh:' + ('mixed' if len(case['blocks']) > 1 else 'uniform'))
        for t in case['blocks']:
            ctx.count('etype:' + t)
        if 'tet' in case['blocks'] and 'tet2' in case['blocks']:
            ctx.count('tet+tet2 in one mesh')
        ctx.count('storage-order:' + case['order'])
        ctx.count('id-style:' + case['id_style'])
        ctx.count(f"blocks nodal/elemental:{'absent' if case['pop_node'] else 'present'}/"
                  f"{'present' if case['elem_vars'] else 'absent'}")
        ctx.count(f"n_nodal_vars(+NODE):{len(case['nodal_vars'])}")
        ctx.count(f"n_elem_vars:{len(case['elem_vars'])}")
        for v in case['elem_vars']:
            ctx.count('elemental attached by:' + v['how'])
        count_renames(ctx, case)
        ctx.count('values:nan', sum(1 for x in vals if x != x))
        ctx.count('values:inf', sum(1 for x in vals if math.isinf(x)))
        ctx.count('values:-0.0', sum(1 for x in vals if x == 0 and math.copysign(1, x) < 0))
        ctx.count('values:denormal', sum(1 for x in vals if x == x and x != 0 and abs(x) < 2.2250738585072014e-308))
        ctx.count('values:|x|>=1e300', sum(1 for x in vals if x == x and not math.isinf(x) and abs(x) >= 1e300))
        ctx.count('values:total', len(vals))
        run_case(ctx, case, cfg_mismatch, prepared=fd)
    # stream own-id-order (DESIGN section 5, F9 - fixed in the tree: the writer binds rows to ids): every variable keeps its
    # rows in a private id order; part of the property oracle (values read back are bound to the same ids, bit-identical)
    for k in range(ctx.n(90, 700) if ctx.driver is not None else ctx.n(160, 900)):
        case = gen_case(ctx.rng, own_orders=True)
        fd = gen_history(ctx, ctx.rng, case) if ctx.rng.random() < P_HISTORY_OWN else None
        count_history(ctx, case, 'own-id-order: ')
        fams = own_order_families(case)
        ctx.case(('own-id-order', str(to_json(case))), sample=None, nontrivial=any(n >= 2 for n in fams.values()))
        ctx.count('own-id-order: cases')
        for key, n in fams.items():
            ctx.count(f'own-id-order: {key} variables with distinct private orders != mesh order: {min(n, 3)}{"+" if n >= 3 else ""}')
        for v in case['nodal_vars'] + case['elem_vars']:
            ctx.count('own-id-order: attached by ' + v['how'])
        count_renames(ctx, case, 'own-id-order: ')
        run_case(ctx, case, cfg_mismatch, stream='own-id-order', prepared=fd)
    if ctx.driver is not None:
        agree = [c for c in CFGS if not cfg_mismatch[c]]
        ctx.extra['cfg_detected'] = agree
        ctx.extra['cfg_mismatches'] = {c: len(v) for c, v in cfg_mismatch.items()}
        if 'fixed' not in agree:
            for what, b, impl, model in cfg_mismatch['fixed'][:10]:
                ctx.disagree(what + ' Cfg.fixed' + (' (tree behaves as Cfg.upstream: F9)' if 'upstream' in agree else ''),
                             b, impl, model)
    ctx.failures.sort(key=lambda f: (len((f['case'].get('hist') or {}).get('mods', [])), len(f['case']['nodes']),
                                     sum(len(b) for b in f['case']['blocks'].values())))
    if ctx.failures and ctx.failures[0]['case'].get('hist'):
        shrink_history(ctx, ctx.failures[0])


def shrink_history(ctx, f):
    """the primary failure, if it has a history: drop every step of the history that is not needed for its signature"""
    def fails(c):
        sigs = []
        try:
            oracle(ctx, c, lambda sig, what, observed: sigs.append((sig, what, observed)))
        except Exception:  # noqa
            return None
        return next((x for x in sigs if x[0] == f['signature']), None)
    case = from_json(f['case'])
    if fails(case) is None:
        return
    h = case['hist']
    for simpler in ({'via_file': False}, {'pre_write': None}, {'writes': 1}):
        c = {**case, 'hist': {**h, **simpler}}
        if h.get(list(simpler)[0]) != list(simpler.values())[0] and fails(c):
            case, h = c, c['hist']
    k = 0
    while k < len(h['mods']):
        c = {**case, 'hist': {**h, 'mods': h['mods'][:k] + h['mods'][k + 1:]}}
        if fails(c):
            case, h = c, c['hist']
        else:
            k += 1
    got = fails(case)
    if got:
        f.update(case=to_json(case), what=got[1], observed=got[2])
        ctx.count('primary failure: history shrunk to the steps needed')


def replay(ctx, obj):
    case = from_json(obj['input'])
    found = []
    r = oracle(ctx, case, lambda sig, what, observed: found.append({'signature': sig, 'what': what, 'observed': observed}))
    text = r.get('text')
    out = {'case': brief(case), 'failures': found, 'fails': bool(found), 'file_head': (text or '').split('\n')[:6]}
    if r.get('outside'):
        out['outside'] = r['outside']
    if ctx.driver is not None and text is not None:
        enc = model_fem(r['snap'])
        out['model_writer_agrees'] = {}
        for name, flag in CFGS.items():
            out['model_writer_agrees']['Cfg.' + name] = model_write(ctx, flag, enc)[1] == text
        mread = dec_read(ctx.driver.ask('c04.read ' + C.esc(text)))
        out['model_reader'] = None if mread is None else {'nodes': str(mread['nodes'])[:200], 'blocks': str(mread['blocks'])[:300]}
    return out
