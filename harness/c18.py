"""C18 - re-typing elements (to_polyhedron, resolve_degeneracy, make_elements_positive) keeps shape
(DESIGN.md section 4, C18).

Tie T: polyhedron face patterns (tabulated under a non-identity argsort), degeneracy patterns -> Gen/Tables.lean
       (`decide` / `ring` obligations in Props/C18; `C18_pyr_table` fails while pyr_to_polyhedron omits argsort: F10).
Tie D: face data of `to_polyhedron()` (vs the model for Cfg.fixed and Cfg.upstream: exactly one must reproduce
       the tree), element blocks of `resolve_degeneracy()`, connectivity after `make_elements_positive()` - also after a
       HISTORY of volume / metric queries and earlier make_elements_positive() calls on the same object, against the
       history model `runH` for Cfg.freshMetric = true / false (again exactly one must reproduce the tree).
Tie P: exact-rational polyhedron / element volumes of the model vs the float kernels, on fresh objects.
Oracle: the property on the real API: per element closed / own nodes / outward / equal volume; the four collapse
        patterns; every subset of inverted tets of small meshes; fresh-object volume >= 0.
Histories (inside the quantifier, reported through `fail`): each of the three operations is also run after 0-4 public
        calls on the SAME object (calculate_element_metrics / calculate_element_volumes with every combination of
        raise_negative_* / return_abs_* / mode, signed-abs-signed sequences, surface / facet extraction, normals,
        incidence / adjacency matrices, elemental->nodal conversion, the operation itself once more).  The result is
        judged ONLY against independently rebuilt fresh objects and the generated mesh description (never against what
        the live object has stored); the arrays earlier queries returned to the caller are kept (live object + copy) and
        re-compared after every later call, the stored elemental variables are snapshotted before / after every call
        (both go into the replay as a trace that names the call which changed them; a clause of C18 is evaluated with
        the arrays the caller holds, so a later call that corrupts them is reported through that clause).
Absolute scale (round 4, seeded C18-7): stream `absolute-scale` - the same meshes scaled exactly by 2^-20 .. 2^10 for all three
        operations, tolerances relative to the scaled size, sign of the fresh volume exact.
Derived objects (round 5, class S, seeded C18-10): stream `derived` - the object an operation is applied to is not built by the
        constructor but OBTAINED from another object by a chain of public calls (resolve_degeneracy of a mesh with collapsed
        hexahedra, cut_with_element_ids / extract_with_element_indices with the request in shuffled order or a subset,
        cut_with_element_type, two-step chains).  Such objects carry whatever tables their producer built (dict_element_id2index
        from before the element blocks were replaced ...).  The expectation is the derived object's CURRENT public state (nodes,
        per-type blocks; merged view checked against the blocks), the oracles are the same.  `calculate_element_volumes()` ON THE
        OBJECT RETURNED by resolve_degeneracy() (observe_at of the property) is compared per id with the source's volumes in every
        resolve_degeneracy case.  Deliberate structure (class T): hex-only meshes with >= 3 hexahedra, element ids NOT stored
        ascending and a non-empty PROPER subset collapsed (the result is a hex + prism mix re-sorted by id).
"""
import itertools
from fractions import Fraction as F

import numpy as np

from . import common as C
from . import meshgen as G
from . import d_util as U

PROP = 'C18'
LEAN_MODULES = ['Femio.Props.C18', 'Femio.Props.C18Pyr', 'Femio.Props.C18Derived']
THEOREMS = ['C18_pos_correct', 'C18_pyr_table', 'C18_poly_closed', 'C18_poly_own_nodes', 'C18_poly_outward_volume',
            'C18_poly_kernels', 'C18_degeneracy', 'C18_degeneracy_untouched', 'C18_positive', 'C18_permute_table', 'C18_pyr_counterexample',
            'C18_positive_any_history', 'C18_positive_history_partial', 'C18_stored_metric_counterexample',
            'C18_table_current', 'C18_stale_table_counterexample']
PARTIAL = [
    'C18_poly_outward_volume: volumes are the centroid-fan kernels (exact for planar faces; for warped quadrilaterals '
    'the polyhedron "linear" kernel and the hex / prism / pyr "linear" kernels triangulate differently and are not '
    'claimed equal)',
    'C18_degeneracy: volume equality is between the centroid kernels of the degenerate hex and of the prism',
    'make_elements_positive is modelled for tet meshes (femio raises NotImplementedError for every other type with an '
    'inverted element, and for any mesh containing pyramids); the history model (C18_positive_any_history) covers '
    'calculate_element_metrics / calculate_element_volumes / make_elements_positive - the other prior queries of the '
    'generated histories (surface, normals, incidence ...) are oracle-only',
    'C18_positive_history_partial is the statement for the unrepaired configuration (before e608c63) and is kept '
    'for reference with its counterexample C18_stored_metric_counterexample',
    'C18_table_current / C18_stale_table_counterexample model the id -> row table (dict_element_id2index) abstractly (value placed '
    'in row tbl[id]); that femio\'s result objects carry a CURRENT table is not proved but observed by the `derived` stream and the '
    'per-id volumes of the object returned by resolve_degeneracy (open finding degeneracy:result-object:volume:stale-id2index)',
]
RULE = ('(a) to_polyhedron: seeded geometric meshes (tet / hex / prism / pyr / mixed with interleaved element ids; tet '
        'meshes also with a random inverted subset) with node ids in ascending, descending and shuffled storage order, '
        'dense / sparse / large ids; (b) resolve_degeneracy: hex and hex+prism(+pyr) meshes in which a random subset of '
        'hexahedra is collapsed along one of the four edge pairs (01, 12, 23, 30), every pattern also alone on a single '
        'hex, plus a labelled stream of unknown patterns (ValueError expected); (c) make_elements_positive: every subset '
        'of inverted tets of 6-tet meshes (2^6 subsets) and random subsets of larger tet meshes; positive hex / prism / '
        'mixed meshes (empty inverted subset: no-op expected; meshes with pyramids are a labelled stream, femio has no '
        'pyramid metric). HISTORIES: half of the cases of (a), (b) and a second copy of the streams of (c) run the '
        'operation after 0-4 public calls on the same object: for (c) the 2^6 subsets are paired with an ENUMERATION of '
        'all histories of <= 2 signed / absolute metric / volume queries, the signed-abs-signed triples and the '
        'operation repeated; elsewhere histories are random (volume / metric queries with every combination of '
        'raise_negative_*, return_abs_*, mode; "themed" sequences toggling return_abs on one function; surface / facet '
        'extraction, surface normals, incidence / adjacency matrices, elemental->nodal conversion; the operation itself '
        'once more). Results are judged against independently rebuilt fresh objects only. Stream `absolute-scale` (round 4): the '
        'same generator meshes scaled exactly by 2^-20, 2^-15, 2^-10, 2^-7, 2^-3, 2^4, 2^10 (element volumes 1e-19 .. 1e+10) x all '
        'three operations with and without histories - to_polyhedron (all kinds), resolve_degeneracy (random collapsed subsets), '
        'make_elements_positive (every subset of a 6-tet mesh with the scales rotating over the subsets - thorough: every subset at '
        'every scale -, random subsets, positive hex / prism / mixed meshes); volume tolerances relative to max|coordinate|^3 of the '
        'SCALED mesh (no floor), sign of the fresh volume exact from the rational coordinates. Stream `derived` (round 5): the object '
        'the operation is applied to is OBTAINED from a fresh source by public calls - resolve_degeneracy of a mesh with collapsed '
        'hexahedra (deliberate structure: hex-only, >= 3 hexahedra, element ids not stored ascending, a non-empty proper subset '
        'collapsed; or the hex block of a mixed mesh), cut_with_element_ids / extract_with_element_indices with the request shuffled '
        '(all elements or a subset), cut_with_element_type, the chains cut>resolve, resolve>cut - x to_polyhedron (9 rotating styles x '
        'kinds, a third after a history), resolve_degeneracy (on cut / extracted objects that still hold the collapsed hexahedra, and '
        'a second time on its own result), make_elements_positive (tet meshes with a random inverted subset; hex+prism results: '
        'no-op), every fourth case at an absolute scale; expectation = the derived object\'s current public state (per-type blocks, '
        'merged view checked against them). Every resolve_degeneracy case also asks calculate_element_volumes() of the RETURNED '
        'object and compares per id with the source. non-trivial = storage order differs from ascending ids (a; derived: node or '
        'element ids), at least one degenerate hex (b), at least one inverted tet (c)')
ASSUMPTIONS = [
    'volumes are evaluated on fresh objects built from copies of the result\'s arrays (what the live object has stored '
    'in elemental_data - which ignores the options of later queries - is property C19\'s business: DESIGN section 5 F11)',
    'original per-element volumes are evaluated block by block on a fresh object (independent of the `mix` branch of '
    'calculate_element_volumes, which belongs to C11)',
    'node ids < 2^31 (to_polyhedron casts connectivity to int32)',
    'absolute scale: every clause of C18 is homogeneous under uniform scaling, so it is asserted unchanged on meshes scaled by '
    '2^-20 .. 2^10; in that stream tolerances are relative to max|coordinate|^3 without the floor of 1 the other streams keep '
    '(d_util.scale), and "non-negative" is decided exactly (a flat element has volume exactly 0 - none is generated)',
    'derived objects: the deriving calls (cut_with_element_ids, extract_with_element_indices, cut_with_element_type) are not under '
    'test here (C09): the description of the derived object is read from its public state (nodes, per-type blocks); a derivation '
    'that raises or yields an object whose merged view disagrees with its blocks is counted (derived:*) and skipped, never reported; '
    'what happens to the PARENT of a derived object is not asserted (C19)',
    'a prior query that raises (ValueError of raise_negative_*=True on an inverted mesh, NotImplementedError of the '
    'pyramid metric, anything on a degenerate hexahedron) is part of the history, not a C18 failure: the history goes on',
]
TRUSTED = ['C18: harness/meshgen.py face tables are the oracle\'s independent definition of an element\'s boundary']

PATTERNS = {'01': (0, 1), '12': (1, 2), '23': (2, 3), '30': (3, 0)}

# ------------------------------------------------------------------ absolute scale (round 4, class J; seeded C18-7)
#
# The clauses of C18 are homogeneous: scaling a mesh by s multiplies every volume by s^3 and changes neither node sets, face
# lists, collapse patterns nor orientations.  A volume is a DIMENSIONAL quantity - a part meshed in metres with millimetre cells
# has element volumes of 1e-9 and below, one meshed in millimetres 1e+9 times that - so any absolute threshold on it inside femio
# (np.isclose(metric, 0.) with its default atol=1e-8, `< 1e-10`, ...) silently changes the behaviour at small sizes.  Stream
# `absolute-scale`: the same generator meshes scaled EXACTLY by powers of two 2^-20 .. 2^10 (binary64 coordinates scale without
# rounding), all three operations (with and without prior histories), judged by the same oracles with every volume tolerance
# relative to the scaled size (max|coordinate|^3 WITHOUT the floor of 1 that `d_util.scale` has) and the sign of the fresh
# volume decided exactly from the rational coordinates.
ABS_EXPONENTS = [-20, -15, -10, -7, -3, 4, 10]


def scaled(m, e):
    """the mesh under the uniform scaling by 2^e"""
    s = F(2) ** e
    out = dict(m)
    out['nodes'] = [(i, tuple(F(v) * s for v in p)) for i, p in m['nodes']]
    out['abs_exp'] = e
    return out


def mesh_scale(m):
    if 'abs_exp' in m:
        return max(abs(float(v)) for _, p in m['nodes'] for v in p) ** 3
    return U.scale(m)


def mesh_case(m, **kw):
    case = U.mesh_case(m, **kw)
    if 'abs_exp' in m:
        case['abs_exp'] = m['abs_exp']
    return case


# ------------------------------------------------------------------ histories of public calls on ONE object
#
# a call is JSON: ['metrics', raise, abs] | ['volumes', mode, raise, abs] | ['query', name] | ['again'] (the operation under
# test itself, result discarded)

MODES = ('centroid', 'linear', 'gaussian')
QUERIES = {
    'extract_surface': lambda fd: fd.extract_surface(),
    'to_surface': lambda fd: fd.to_surface(),
    'surface_normals': lambda fd: fd.calculate_surface_normals(),
    'extract_facets': lambda fd: fd.extract_facets(),
    'incidence': lambda fd: fd.calculate_incidence_matrix(),
    'adjacency_element': lambda fd: fd.calculate_adjacency_matrix_element(),
    'adjacency_node': lambda fd: fd.calculate_adjacency_matrix_node(),
    'relative_incidence': lambda fd: fd.calculate_relative_incidence_metrix_element(fd, minimum_n_sharing=3),
    # volume-weighted elemental -> nodal mean: asks calculate_element_metrics(raise_negative_metric=False) internally
    # one block handed in explicitly (element_type taken from the block's name; stores what it computed)
    'block_volumes': lambda fd: fd.calculate_element_volumes(elements=list(fd.elements.values())[0], raise_negative_volume=False),
    'block_metrics': lambda fd: fd.calculate_element_metrics(elements=list(fd.elements.values())[-1], raise_negative_metric=False),
    'e2n_mean': lambda fd: fd.convert_elemental2nodal(np.ones((len(fd.elements.ids), 1)), mode='mean', raise_negative_volume=False),
}
VOLUME_LIKE = ('metrics', 'volumes')


def _metric_call(rnd, f, r, a):
    if f == 'metrics':
        return ['metrics', bool(r), bool(a)]
    return ['volumes', rnd.choice(MODES) if rnd.random() < .3 else 'centroid', bool(r), bool(a)]


def gen_history(rnd, again=True):
    """0-4 prior public calls. Half of the histories are 'themed': one function asked again and again with return_abs
    toggling (signed, abs, signed ...: what a caller does who looks at the inverted cells and then sums the volume)."""
    n = rnd.choice([0, 1, 1, 2, 2, 3, 3, 4])
    themed = rnd.random() < .5
    f = rnd.choice(VOLUME_LIKE)
    a = rnd.random() < .5
    h = []
    for _ in range(n):
        if themed:
            h.append(_metric_call(rnd, f, rnd.random() < .2, a))
            a = not a
            if rnd.random() < .15:
                f = 'metrics' if f == 'volumes' else 'volumes'
        else:
            u = rnd.random()
            if u < .55:
                h.append(_metric_call(rnd, rnd.choice(VOLUME_LIKE), rnd.random() < .3, rnd.random() < .5))
            elif u < .9 or not again:
                h.append(['query', rnd.choice(sorted(QUERIES))])
            else:
                h.append(['again'])
    return h


def enum_histories():
    """all histories of <= 2 signed / absolute metric / volume queries, the alternating triples, the operation repeated"""
    Q = [['metrics', False, False], ['metrics', False, True], ['volumes', 'centroid', False, False], ['volumes', 'centroid', False, True]]
    hs = [[]] + [[q] for q in Q] + [[p, q] for p in Q for q in Q]
    for s_, a_ in ((Q[0], Q[1]), (Q[2], Q[3])):
        hs += [[s_, a_, s_], [a_, s_, a_]]
    hs += [[['again']], [Q[1], ['again']], [['again'], Q[0]], [Q[2], ['again'], Q[3]]]
    return hs


def legacy_history(prior):
    """replay files of earlier rounds: 'prior_query' = abs-volume | signed-volume"""
    return {'abs-volume': [['volumes', 'centroid', False, True]], 'signed-volume': [['volumes', 'centroid', False, False]]}.get(prior, [])


def hist_label(hist):
    if not hist:
        return 'none'
    kinds = {c[0] for c in hist}
    return '+'.join(sorted(kinds))


def _diff_kind(old, new):
    if old is None:
        return 'created'
    if new is None:
        return 'removed'
    if old.shape != new.shape:
        return 'shape'
    if np.array_equal(old, new, equal_nan=True):
        return None
    return 'sign' if np.array_equal(np.abs(old), np.abs(new), equal_nan=True) else 'values'


class Hist:
    """runs calls on one object; keeps what every query returned to the caller (the live array AND a copy taken at return
    time) and snapshots of the stored numeric elemental variables before / after every call"""

    def __init__(self, fd, again):
        self.fd, self.again = fd, again
        self.trace = []
        self.held = []      # (index of the call, live array, copy at return time)

    def stored(self):
        out = {}
        try:
            for k in list(self.fd.elemental_data.keys()):
                try:
                    a = np.asarray(self.fd.elemental_data.get_attribute_data(k))
                except Exception:  # noqa
                    continue
                if a.dtype.kind in 'fiu':
                    out[k] = np.array(a, copy=True)
        except Exception:  # noqa
            pass
        return out

    def _after(self, entry, before):
        after = self.stored()
        ch = {k: _diff_kind(before.get(k), after.get(k)) for k in sorted(set(before) | set(after))}
        ch = {k: v for k, v in ch.items() if v}
        if ch:
            entry['stored_variables_changed'] = ch
        for i, live, cp in self.held:
            d = _diff_kind(cp, np.asarray(live))
            if d and 'returned_array_changed' not in self.trace[i]:
                self.trace[i]['returned_array_changed'] = {'by_call': len(self.trace), 'how': d}

    def call(self, c):
        before = self.stored()
        entry = {'call': c}
        r = None
        if c[0] == 'again':
            G.quiet(self.again)                     # the operation itself: an exception here is the property's business
            entry['outcome'] = 'ok'
        else:
            try:
                if c[0] == 'metrics':
                    r = G.quiet(self.fd.calculate_element_metrics, raise_negative_metric=c[1], return_abs_metric=c[2])
                elif c[0] == 'volumes':
                    r = G.quiet(self.fd.calculate_element_volumes, mode=c[1], raise_negative_volume=c[2], return_abs_volume=c[3])
                else:
                    r = G.quiet(QUERIES[c[1]], self.fd)
                entry['outcome'] = 'ok'
            except Exception as e:  # noqa   (a raising prior query is part of the history)
                entry['outcome'] = 'raised:' + type(e).__name__
        self._after(entry, before)
        self.trace.append(entry)
        if isinstance(r, np.ndarray) and r.dtype.kind == 'f' and c[0] in VOLUME_LIKE:
            self.held.append((len(self.trace) - 1, r, np.array(r, copy=True)))

    def final(self, name):
        before = self.stored()
        entry = {'call': [name, '(the operation under test)']}
        r = G.quiet(self.again)
        entry['outcome'] = 'ok'
        self._after(entry, before)
        self.trace.append(entry)
        return r

    def held_now(self):
        """what the caller holds NOW from the earlier volume / metric queries (live arrays, first column)"""
        out = []
        for i, live, _ in self.held:
            a = np.asarray(live)
            out.append({'call': i, 'values': [float(x) for x in (a[:, 0] if a.ndim == 2 else a.ravel())]})
        return out


def run_history(fd, hist, again, name):
    h = Hist(fd, again)
    for c in hist:
        h.call(c)
    r = h.final(name)
    return h, r


def count_history(ctx, op, hist, trace):
    ctx.count(f'{op}:history:len:{len(hist)}')
    ctx.count(f'{op}:history:' + hist_label(hist))
    for e in trace[:-1]:
        c = e['call']
        if c[0] in VOLUME_LIKE:
            ctx.count(f'history:call:{c[0]}:raise={int(c[-2])}:abs={int(c[-1])}')
            if c[0] == 'volumes':
                ctx.count('history:mode:' + c[1])
        elif c[0] == 'query':
            ctx.count('history:call:' + c[1])
        else:
            ctx.count('history:call:again')
        if e['outcome'] != 'ok':
            ctx.count('history:prior-call-' + e['outcome'])
        if 'returned_array_changed' in e:
            ctx.count('history:earlier-returned-array-changed:' + e['returned_array_changed']['how'])
    for e in trace:
        for k, v in e.get('stored_variables_changed', {}).items():
            ctx.count(f'history:stored:{k}:{v}')


def count_scale(ctx, op, m):
    if 'abs_exp' in m:
        ctx.count(f'absolute-scale:{op}:2^{m["abs_exp"]}')


def source_unchanged(fd, m):
    """nodes / element blocks of the live source object still describe the generated mesh"""
    try:
        return ([int(i) for i in fd.nodes.ids] == [i for i, _ in m['nodes']]
                and blocks_of(fd) == {t: [(e, list(c)) for e, c in b] for t, b in m['blocks'].items()})
    except Exception:  # noqa
        return False



# ------------------------------------------------------------------ derived objects (round 5, class S; seeded C18-10)
#
# a derivation = (source mesh, steps); a step is JSON: ['resolve_degeneracy'] | ['cut_with_element_ids', [ids in request order]]
# | ['extract_with_element_indices', [positions]] | ['cut_with_element_type', type]

def apply_steps(fd, steps):
    for s_ in steps:
        if s_[0] == 'resolve_degeneracy':
            fd = G.quiet(fd.resolve_degeneracy)
        elif s_[0] == 'cut_with_element_ids':
            fd = G.quiet(fd.cut_with_element_ids, np.array(s_[1]))
        elif s_[0] == 'extract_with_element_indices':
            fd = G.quiet(fd.extract_with_element_indices, np.array(s_[1]))
        elif s_[0] == 'cut_with_element_type':
            fd = G.quiet(fd.cut_with_element_type, s_[1])
        else:
            raise ValueError('unknown derivation step ' + repr(s_))
    return fd


def obj_for(m, derive):
    """the object under test: freshly constructed from the description m, or derived from a fresh source by public calls"""
    if derive is None:
        return U.fresh(m)
    return apply_steps(U.fresh(derive[0]), derive[1])


def views_consistent(fd):
    """the merged view (elements.ids / types / data) and the per-type blocks describe the same elements"""
    merged = sorted((int(e), str(t), [int(x) for x in c]) for e, t, c in zip(fd.elements.ids, fd.elements.types, fd.elements.data))
    return merged == sorted((e, t, c) for t, b in blocks_of(fd).items() for e, c in b)


def order_class(ids):
    return 'asc' if ids == sorted(ids) else 'desc' if ids == sorted(ids, reverse=True) else 'shuf'


def step_label(steps):
    return '>'.join(s_[0] for s_ in steps)


def describe_object(fd, m_src, steps):
    """the CURRENT public state of a (derived) object as a mesh description: node ids / exact float coordinates in storage
    order, per-type blocks in storage order"""
    ids = [int(i) for i in fd.nodes.ids]
    m = {'nodes': [(i, tuple(F(float(v)) for v in row)) for i, row in zip(ids, np.asarray(fd.nodes.data))],
         'blocks': {t: [(e, list(c)) for e, c in b] for t, b in blocks_of(fd).items()},
         'kind': m_src['kind'] + '>' + step_label(steps), 'order': order_class(ids), 'id_style': m_src.get('id_style')}
    if 'abs_exp' in m_src:
        m['abs_exp'] = m_src['abs_exp']
    return m


def materialise(ctx, derive, op):
    """description of the derived object (None when the derivation itself fails or yields an object whose views disagree:
    that is the business of the properties about the deriving call - counted, never reported here)"""
    try:
        fd = obj_for(None, derive)
        ok = views_consistent(fd)
    except Exception as e:  # noqa
        ctx.count(f'derived:{op}:derivation-raised:{type(e).__name__}')
        return None
    if not ok:
        ctx.count(f'derived:{op}:views-of-derived-object-disagree')
        return None
    return describe_object(fd, derive[0], derive[1])


def derived_case(case, key, m, derive):
    if derive is None:
        return case, key
    case['derived_from'] = {'mesh': G.to_json(derive[0]), 'steps': derive[1]}
    return case, key + ('derived', repr(derive[1]), tuple(derive[0]['nodes']),
                        tuple((t, tuple((e, tuple(c)) for e, c in b)) for t, b in derive[0]['blocks'].items()))


def is_ascending(b):
    return [e for e, _ in b] == sorted(e for e, _ in b)


def gen_partial_degenerate(ctx, kind='hex', exp=None):
    """deliberate structure: >= 3 hexahedra (hex-only, or the hex block of a mixed mesh: >= 1), hex ids NOT stored ascending,
    a non-empty PROPER subset of the hexahedra collapsed (hex-only) - resolve_degeneracy turns it into a hex + prism mix"""
    rnd = ctx.rng
    need = 3 if kind == 'hex' else 1
    while True:
        m = G.gen_geometric(rnd, kind=kind, max_cells=2, voids=False)
        if len(m['blocks'].get('hex', [])) >= need:
            break
    hx = m['blocks']['hex']
    for _ in range(20):
        if len(hx) < 2 or not is_ascending(hx):
            break
        rnd.shuffle(hx)
    if exp is not None:
        m = scaled(m, exp)
    if kind == 'hex':
        only = set(rnd.sample(range(len(hx)), rnd.randint(1, len(hx) - 1)))
    else:
        only = {k for k in range(len(hx)) if rnd.random() < .6} or {0}
    return collapse(ctx, m, force=None, only=only)


def shuffled_request(rnd, items, subset):
    items = list(items)
    rnd.shuffle(items)
    if subset and len(items) > 1:
        items = items[:rnd.randint(max(1, len(items) // 2), len(items) - 1)]
    return items


def all_eids(m):
    return [e for b in m['blocks'].values() for e, _ in b]


def derived_source(ctx, style, kind, exp=None, degenerate=False):
    """(source mesh, steps, patterns of the source) for one of the derivation styles.  degenerate=False: the derived object has
    no degenerate hexahedron left (to_polyhedron / make_elements_positive); True: the derivation keeps the collapsed hexahedra
    (resolve_degeneracy is the operation under test)"""
    rnd = ctx.rng
    if style in ('resolve', 'cut>resolve', 'resolve>cut') or degenerate:
        m, pats = gen_partial_degenerate(ctx, 'hex' if kind not in ('hex', 'mixed') else kind, exp)
    else:
        m, pats = G.gen_geometric(rnd, kind=kind, max_cells=2), {}
        if exp is not None:
            m = scaled(m, exp)
    eids = all_eids(m)
    if style == 'resolve':
        steps = [['resolve_degeneracy']]
    elif style == 'cut>resolve':
        steps = [['cut_with_element_ids', shuffled_request(rnd, eids, True)], ['resolve_degeneracy']]
    elif style == 'resolve>cut':
        steps = [['resolve_degeneracy'], ['cut_with_element_ids', shuffled_request(rnd, eids, rnd.random() < .5)]]
    elif style == 'cut-all':
        steps = [['cut_with_element_ids', shuffled_request(rnd, eids, False)]]
    elif style == 'cut-subset':
        steps = [['cut_with_element_ids', shuffled_request(rnd, eids, True)]]
    elif style == 'extract':
        steps = [['extract_with_element_indices', shuffled_request(rnd, range(len(eids)), rnd.random() < .5)]]
    elif style == 'cut-type':
        steps = [['cut_with_element_type', rnd.choice(sorted(m['blocks']))]]
    elif style == 'resolve-noop':
        steps = [['cut_with_element_ids', shuffled_request(rnd, eids, False)], ['resolve_degeneracy']]
    else:
        raise ValueError(style)
    return m, steps, pats


# ------------------------------------------------------------------ (a) to_polyhedron

def decode_faces(dat):
    dat = [int(x) for x in dat]
    n, i, fs = dat[0], 1, []
    for _ in range(n):
        k = dat[i]
        fs.append(dat[i + 1:i + 1 + k])
        i += 1 + k
    return fs, i == len(dat)


def _objarr(rows):
    a = np.empty(len(rows), object)
    for i, r in enumerate(rows):
        a[i] = list(r)
    return a


def rebuild_poly(m, obs):
    """an independently built polyhedron object holding COPIES of the result's ids / connectivity / face data (nothing
    of the history of the source object can reach it)"""
    from femio import FEMData, FEMAttribute, FEMElementalAttribute
    U.clear_caches()
    nodes = FEMAttribute('NODE', ids=np.array([i for i, _ in m['nodes']]),
                         data=np.array([[float(v) for v in p] for _, p in m['nodes']]), silent=True)
    conn = obs['conn']
    cd = np.array(conn) if len({len(r) for r in conn}) == 1 else _objarr(conn)
    ids = np.array(obs['ids'])
    el = FEMElementalAttribute('ELEMENT', {'polyhedron': FEMAttribute('polyhedron', ids=ids, data=cd, silent=True)})
    p = G.quiet(lambda: FEMData(nodes=nodes, elements=el))
    face = FEMElementalAttribute('face', {'polyhedron': FEMAttribute('face', ids=ids.copy(), data=_objarr(obs['face']), silent=True)})
    G.quiet(p.elemental_data.update, {'face': face})
    return p


def stores_volume(hist):
    """the history may have left a stored `volume` on the source object (to_polyhedron hands the source's
    elemental_data to the result, whose own calculate_element_volumes() then answers from it: C19)"""
    return any(c[0] in VOLUME_LIKE or (c[0] == 'query' and c[1] in ('e2n_mean', 'block_volumes', 'block_metrics')) for c in hist)


def poly_real(m, hist=(), derive=None):
    hist = list(hist)
    fd = obj_for(m, derive)
    H, poly = run_history(fd, hist, fd.to_polyhedron, 'to_polyhedron')
    obs = {'ids': [int(i) for i in poly.elements.ids], 'types': list(poly.elements.keys()),
           'conn': [[int(x) for x in r] for r in poly.elements.data],
           'face': [[int(x) for x in r] for r in poly.elemental_data['face']['polyhedron'].data],
           'node_ids': [int(i) for i in poly.nodes.ids], 'trace': H.trace, 'source_unchanged': source_unchanged(fd, m)}
    if not stores_volume(hist):
        # observe_at: calculate_element_volumes on the result object itself
        obs['vol_result_object'] = [float(x) for x in G.quiet(poly.calculate_element_volumes, raise_negative_volume=False)[:, 0]]
    if any(c[0] == 'again' for c in hist) or not hist:
        # the result converted once more (a polyhedron mesh: outside the quantifier, labelled stream)
        try:
            p3 = G.quiet(poly.to_polyhedron)
            obs['reconverted_same'] = ([[int(x) for x in r] for r in p3.elemental_data['face']['polyhedron'].data] == obs['face']
                                       and [int(i) for i in p3.elements.ids] == obs['ids'])
        except Exception as e:  # noqa
            obs['reconverted_same'] = 'raised:' + type(e).__name__
    for mode in ('centroid', 'linear'):
        p2 = rebuild_poly(m, obs)
        obs['vol_' + mode] = [float(x) for x in G.quiet(p2.calculate_element_volumes, mode=mode, raise_negative_volume=False)[:, 0]]
        obs['orig_' + mode] = U.real_volumes(m, mode)
    return obs


def poly_oracle(ctx, m, obs, case):
    ids = [i for i, _ in m['nodes']]
    X = U.coords_exact(m)
    els = {e: (t, c) for t, e, c in U.elem_list(m)}
    sc = mesh_scale(m)
    if sorted(obs['ids']) != sorted(els) or obs['types'] != ['polyhedron'] or obs['node_ids'] != ids:
        ctx.fail('poly:ids-changed', 'to_polyhedron() changed the element ids / nodes', case, {'ids': obs['ids'][:8]})
        return
    for k, e in enumerate(obs['ids']):
        t, c = els[e]
        if obs['conn'][k] != c:
            ctx.fail('poly:connectivity-changed', 'to_polyhedron() changed an element\'s node list', case, {'element': e})
            return
        fs, ok = decode_faces(obs['face'][k])
        what = {'element': e, 'type': t, 'connectivity': c, 'faces_as_positions': fs}
        if not ok or any(p < 0 or p >= len(ids) for f in fs for p in f):
            ctx.fail(f'poly:{t}:malformed-face-data', 'face data of a polyhedron is malformed', case, what)
            return
        fid = [[ids[p] for p in f] for f in fs]
        what['faces_as_ids'] = fid
        if not set(i for f in fid for i in f) <= set(c):
            ctx.fail(f'poly:{t}:foreign-node', 'a polyhedron face refers to a node that is not a node of its element', case, what)
            return
        if set(i for f in fid for i in f) != set(c):
            ctx.fail(f'poly:{t}:node-missing', 'the faces of a polyhedron do not use all nodes of the element', case, what)
            return
        ec = {}
        for f in fid:
            for d in U.dir_edges(f):
                ec[d] = ec.get(d, 0) + 1
        if any(n != 1 or ec.get((d[1], d[0]), 0) != 1 for d, n in ec.items()):
            ctx.fail(f'poly:{t}:not-closed', 'the face list of a polyhedron is not a closed oriented surface', case, what)
            return
        vol = sum(U.face_flux([X[i] for i in f]) for f in fid)
        ref = sum(U.face_flux([X[c[i]] for i in f]) for f in G.FACES[t])
        if vol != ref:
            ctx.fail(f'poly:{t}:volume-differs', 'the volume enclosed by the polyhedron faces differs from the element\'s volume',
                     case, {**what, 'enclosed': str(vol), 'element_volume': str(ref)})
            return
        if ref > 0 and not vol > 0:
            ctx.fail(f'poly:{t}:inward', 'the polyhedron faces of a positive element are not oriented outwards', case, what)
            return
        if not U.close(obs['vol_centroid'][k], obs['orig_centroid'][e], 2 * U.TOL_CENTROID * sc):
            ctx.fail(f'poly:{t}:volume-differs', 'calculate_element_volumes() of the polyhedron differs from the element\'s volume',
                     case, {**what, 'polyhedron': obs['vol_centroid'][k], 'element': obs['orig_centroid'][e]})
            return
        if 'vol_result_object' in obs and not U.close(obs['vol_result_object'][k], obs['orig_centroid'][e], 2 * U.TOL_CENTROID * sc):
            ctx.fail(f'poly:{t}:volume-differs', 'calculate_element_volumes() on the object returned by to_polyhedron() differs from the element\'s volume',
                     case, {**what, 'polyhedron': obs['vol_result_object'][k], 'element': obs['orig_centroid'][e]})
            return
        if t == 'tet' and not U.close(obs['vol_linear'][k], obs['orig_linear'][e], U.TOL_LINEAR * sc):
            ctx.fail(f'poly:{t}:volume-differs', 'calculate_element_volumes(mode="linear") of the polyhedron differs from the element\'s volume',
                     case, {**what, 'polyhedron': obs['vol_linear'][k], 'element': obs['orig_linear'][e]})
            return


def poly_correspond(ctx, m, obs, case, tally):
    enc = G.enc_mesh(m)
    res = {}
    for cfg in (1, 0):
        t = C.Toks(ctx.driver.ask(f'c18.poly {cfg} ' + enc))
        if t.tok() != 'ok':
            res[cfg] = None
            continue
        res[cfg] = t.lst(lambda: (t.nat(), t.lst(t.nat), t.lst(t.nat), t.rat(), t.rat(), t.rat(), t.rat()))
    impl = list(zip(obs['ids'], obs['conn'], obs['face']))
    for cfg in (1, 0):
        ok = res[cfg] is not None and [(a, b, c) for a, b, c, *_ in res[cfg]] == impl
        tally[cfg][0 if ok else 1] += 1
    if res[1] is None:
        ctx.disagree('to_polyhedron: model error', case, 'ok', 'err')
        return
    if [(a, b, c) for a, b, c, *_ in res[1]] != impl:
        k = next((i for i, (x, y) in enumerate(zip(res[1], impl)) if (x[0], x[1], x[2]) != y), 0)
        same_up = res[0] is not None and [(a, b, c) for a, b, c, *_ in res[0]] == impl
        ctx.disagree('to_polyhedron face data differs from Cfg.fixed' + (' (tree behaves as Cfg.upstream = F10, argsort omitted for pyr)' if same_up else ''),
                     case, impl[k] if k < len(impl) else None, list(res[1][k][:3]) if k < len(res[1]) else None)
        return
    sc = mesh_scale(m)
    for k, (e, _, _, vl, vc, ol, oc) in enumerate(res[1]):
        if not U.close(vc, obs['vol_centroid'][k], U.TOL_CENTROID * sc) or not U.close(vl, obs['vol_linear'][k], U.TOL_LINEAR * sc):
            ctx.disagree('polyhedron volume kernels', case, [obs['vol_centroid'][k], obs['vol_linear'][k]], [float(vc), float(vl)])
            break
        if vc != oc:
            ctx.disagree('model: polyhedron centroid volume != element centroid volume (C18_poly_outward_volume instance)', case, None, [str(vc), str(oc)])
            break


def poly_case(ctx, m, tally, hist=(), derive=None):
    """derive = (source mesh, steps): the operation runs on the object derived from the source by the steps and m is the
    description of that object's public state (recomputed here)"""
    hist = list(hist)
    if derive is not None:
        m = materialise(ctx, derive, 'poly')
        if m is None:
            return
    case = mesh_case(m, op='to_polyhedron')
    ids = [i for i, _ in m['nodes']]
    key = ('poly', tuple(m['nodes']), tuple((t, tuple((e, tuple(c)) for e, c in b)) for t, b in m['blocks'].items()))
    if hist:
        case['history'] = hist
        key = key + (repr(hist),)
    case, key = derived_case(case, key, m, derive)
    U.stage('to_polyhedron() / calculate_element_volumes()')
    obs = U.guarded(ctx, case, key, poly_real, m, hist, derive)
    if obs is None:
        return
    eids = [e for e, _ in sum(m['blocks'].values(), [])]
    ctx.case(key, sample={**G.describe(m), 'op': 'to_polyhedron', **({'history': hist} if hist else {}),
                          **({'derived_by': step_label(derive[1])} if derive else {})},
             nontrivial=ids != sorted(ids) or (derive is not None and eids != sorted(eids)))
    if derive is not None:
        ctx.count('derived:poly:' + step_label(derive[1]))
        ctx.count('derived:poly:types:' + '+'.join(m['blocks']))
    ctx.count('poly:kind:' + m['kind'])
    count_scale(ctx, 'poly', m)
    ctx.count('poly:order:' + m['order'])
    ctx.count('poly:ids:' + str(m.get('id_style')))
    for t in m['blocks']:
        ctx.count('poly:type:' + t, len(m['blocks'][t]))
    count_history(ctx, 'poly', hist, obs['trace'])
    if not obs['source_unchanged']:
        ctx.count('poly:source-object-changed')
    if 'reconverted_same' in obs:
        ctx.count('poly:reconverted-polyhedron-mesh:' + ('same' if obs['reconverted_same'] is True else str(obs['reconverted_same'])))
    if ctx.driver is not None:
        poly_correspond(ctx, m, obs, case, tally)
    n0 = len(ctx.failures)
    poly_oracle(ctx, m, obs, case)
    if len(ctx.failures) > n0:
        f = ctx.failures[-1]
        if hist and isinstance(f['observed'], dict):
            f['observed']['history_trace'] = obs['trace']
        if f['observed'] and 'element' in f['observed']:
            small = shrink_poly(m, f['observed']['element'], f['signature'])
            if small is not None:
                f.update(small)


class _Collect:
    def __init__(self):
        self.failures = []

    def fail(self, signature, what, case, observed=None):
        self.failures.append({'signature': signature, 'what': what, 'case': case, 'observed': observed})

    def count(self, *a, **k):
        pass


def shrink_poly(m, eid, signature):
    """smallest sub-mesh on which the same failure class is still observed: the element alone with its own nodes
    (relative storage order kept), else the element alone with all nodes"""
    t, c = next((t, c) for t, e, c in U.elem_list(m) if e == eid)
    for keep_all in (False, True):
        m2 = {'nodes': [(i, p) for i, p in m['nodes'] if keep_all or i in set(c)], 'blocks': {t: [(eid, list(c))]},
              'kind': m['kind'], 'order': m['order']}
        if 'abs_exp' in m:
            m2['abs_exp'] = m['abs_exp']
        col = _Collect()
        try:
            case = mesh_case(m2, op='to_polyhedron', shrunk_from=G.describe(m))
            poly_oracle(col, m2, poly_real(m2), case)
        except Exception:  # noqa
            continue
        if col.failures and col.failures[0]['signature'] == signature:
            return col.failures[0]
    return None


# ------------------------------------------------------------------ (b) resolve_degeneracy

def collapse(ctx, m, p_deg=.5, force=None, broken=False, only=None):
    """collapse edge pairs of some hexahedra (geometric collapse of the cell, independent of femio's tables); only = the
    storage positions of the hexahedra to collapse (each with a random pattern)"""
    m2 = dict(m)
    blocks = {t: [(e, list(c)) for e, c in b] for t, b in m['blocks'].items()}
    pats = {}
    for k, (e, c) in enumerate(blocks.get('hex', [])):
        if (k in only) if only is not None else (force is not None or ctx.rng.random() < p_deg):
            name = force or ctx.rng.choice(sorted(PATTERNS))
            a, b = PATTERNS[name]
            c[b] = c[a]
            if not broken:
                c[b + 4] = c[a + 4]
            pats[e] = name
    m2['blocks'] = blocks
    m2['kind'] = m['kind'] + '+degenerate'
    return m2, pats


def blocks_of(fd):
    return {t: [(int(i), [int(x) for x in r]) for i, r in zip(a.ids, a.data)] for t, a in fd.elements.items()}


def degen_real(m, hist=(), derive=None):
    hist = list(hist)
    fd = obj_for(m, derive)
    src_ids = U.flat_ids(fd)
    try:
        H, r = run_history(fd, hist, fd.resolve_degeneracy, 'resolve_degeneracy')
    except ValueError as e:
        return {'error': 'value_error', 'msg': str(e), 'trace': []}
    obs = {'blocks': blocks_of(r), 'node_ids': [int(i) for i in r.nodes.ids], 'trace': H.trace,
           'source_unchanged': source_unchanged(fd, m)}
    m_after = {'nodes': m['nodes'], 'blocks': {t: [(e, c) for e, c in b] for t, b in obs['blocks'].items()}, 'kind': 'after', 'order': m['order']}
    obs['vol_after'] = U.real_volumes(m_after, 'centroid')
    obs['vol_before'] = U.real_volumes(m, 'centroid')
    # observe_at of the property: calculate_element_volumes ON THE RESULT OBJECT (it got elemental_data={} - nothing stored by
    # the history is handed over), bound to the ids the result object reports
    v = G.quiet(r.calculate_element_volumes, raise_negative_volume=False)
    obs['res_ids'], obs['src_ids'] = U.flat_ids(r), src_ids
    obs['res_merged'] = sorted((int(e), str(t), [int(x) for x in c]) for e, t, c in zip(r.elements.ids, r.elements.types, r.elements.data))
    obs['vol_result_object'] = [float(x) for x in v[:, 0]]
    return obs


HEX_FACES = G.FACES['hex']


def degen_oracle(ctx, m, pats, obs, case):
    X = U.coords_exact(m)
    sc = mesh_scale(m)
    before = {e: (t, c) for t, e, c in U.elem_list(m)}
    after = {}
    for t, b in obs['blocks'].items():
        for e, c in b:
            if e in after:
                ctx.fail('degeneracy:duplicate-id', 'an element id occurs twice after resolve_degeneracy()', case, {'element': e})
                return
            after[e] = (t, c)
    if sorted(after) != sorted(before):
        ctx.fail('degeneracy:ids-changed', 'resolve_degeneracy() lost or invented element ids', case,
                 {'lost': sorted(set(before) - set(after))[:5], 'new': sorted(set(after) - set(before))[:5]})
        return
    if obs['node_ids'] != [i for i, _ in m['nodes']]:
        ctx.fail('degeneracy:nodes-changed', 'resolve_degeneracy() changed the nodes', case, None)
        return
    for e, (t, c) in before.items():
        t2, c2 = after[e]
        if e in pats:
            what = {'element': e, 'pattern': pats[e], 'hex': c, 'result_type': t2, 'result': c2}
            if t2 != 'prism':
                ctx.fail(f'degeneracy:{pats[e]}:not-a-prism', 'a degenerate hexahedron was not replaced by a prism', case, what)
                return
            if set(c2) != set(c) or len(set(c2)) != 6:
                ctx.fail(f'degeneracy:{pats[e]}:node-set', 'the prism replacing a degenerate hexahedron has another node set', case, what)
                return
            v_hex = sum(U.face_flux([X[c[i]] for i in f]) for f in HEX_FACES)
            v_pr = sum(U.face_flux([X[c2[i]] for i in f]) for f in G.FACES['prism'])
            if v_hex != v_pr:
                ctx.fail(f'degeneracy:{pats[e]}:volume', 'the prism replacing a degenerate hexahedron has another volume', case,
                         {**what, 'hex_volume': str(v_hex), 'prism_volume': str(v_pr)})
                return
        elif (t2, c2) != (t, c):
            ctx.fail('degeneracy:other-element-touched', 'resolve_degeneracy() changed an element that is not a degenerate hexahedron',
                     case, {'element': e, 'before': [t, c], 'after': [t2, c2]})
            return
        if not U.close(obs['vol_after'][e], obs['vol_before'][e], 2 * U.TOL_CENTROID * sc):
            ctx.fail('degeneracy:volume', 'calculate_element_volumes() differs before / after resolve_degeneracy()', case,
                     {'element': e, 'before': obs['vol_before'][e], 'after': obs['vol_after'][e]})
            return
    # (last, so that nothing else is hidden behind it) the volumes the RESULT OBJECT itself reports, per id
    if 'vol_result_object' not in obs:
        return
    tol = 2 * U.TOL_CENTROID * sc
    R, S, V = obs['res_ids'], obs['src_ids'], obs['vol_result_object']
    if sorted(R) != sorted(before) or len(V) != len(R):
        ctx.fail('degeneracy:result-object:ids', 'elements.ids of the object returned by resolve_degeneracy() are not the source\'s ids',
                 case, {'result_ids': R[:8], 'n_volumes': len(V)})
        return
    if obs['res_merged'] != sorted((e, t, c) for e, (t, c) in after.items()):
        k = next((i for i, (x, y) in enumerate(zip(obs['res_merged'], sorted((e, t, c) for e, (t, c) in after.items()))) if x != y), 0)
        ctx.fail('degeneracy:result-object:views-disagree', 'elements.ids / types / data (the merged view) of the object returned by '
                 'resolve_degeneracy() do not describe the same elements as its per-type blocks', case,
                 {'merged_view': obs['res_merged'][k:k + 2], 'blocks': sorted((e, t, c) for e, (t, c) in after.items())[k:k + 2]})
        return
    bad = [k for k, e in enumerate(R) if not U.close(V[k], obs['vol_before'][e], tol)]
    if bad:
        # the mis-assignment an id -> row table built for the SOURCE's storage order produces: the value at row p belongs to S[p]
        stale = len(S) == len(R) and all(U.close(V[k], obs['vol_before'][S[k]], tol) for k in range(len(R)))
        k = bad[0]
        ctx.fail('degeneracy:result-object:volume' + (':stale-id2index' if stale else ''),
                 'calculate_element_volumes() on the object returned by resolve_degeneracy() gives an element another volume than the '
                 'source had' + (' (exactly the assignment through an id -> row table of the SOURCE\'s storage order)' if stale else ''),
                 case, {'element': R[k], 'type': after[R[k]][0], 'volume_on_result_object': V[k], 'volume_in_source': obs['vol_before'][R[k]],
                        'result_ids': R[:12], 'source_ids_in_storage_order': S[:12], 'n_misassigned': len(bad)})


def degen_correspond(ctx, m, obs, case):
    t = C.Toks(ctx.driver.ask('c18.degen ' + G.enc_mesh(m)))
    st = t.tok()
    if 'error' in obs:
        if not (st == 'err' and t.tok() == obs['error']):
            ctx.disagree('resolve_degeneracy error class', case, obs['error'], ' '.join(t.t[:3]))
        return
    if st != 'ok':
        ctx.disagree('resolve_degeneracy error class', case, 'ok', ' '.join(t.t[:3]))
        return
    mb = t.lst(lambda: (G.ELEMENT_TYPES[t.nat()], t.lst(lambda: (t.nat(), t.lst(t.nat)))))
    impl = [(k, v) for k, v in obs['blocks'].items()]
    if mb != impl:
        ctx.disagree('resolve_degeneracy element blocks', case, [(k, v[:3]) for k, v in impl], [(k, v[:3]) for k, v in mb])


def degen_case(ctx, m, pats, stream='main', hist=(), derive=None):
    """derive = (source mesh, steps): resolve_degeneracy runs on the derived object; pats = patterns of the SOURCE (restricted
    here to the hexahedra the derived object still holds as hexahedra)"""
    hist = list(hist)
    if derive is not None:
        m = materialise(ctx, derive, 'degen')
        if m is None:
            return
        pats = {e: pats[e] for e, _ in m['blocks'].get('hex', []) if e in pats}
    case = mesh_case(m, op='resolve_degeneracy', patterns={str(k): v for k, v in pats.items()})
    key = ('degen', tuple(m['nodes']), tuple((t, tuple((e, tuple(c)) for e, c in b)) for t, b in m['blocks'].items()))
    if hist:
        case['history'] = hist
        key = key + (repr(hist),)
    case, key = derived_case(case, key, m, derive)
    U.stage('resolve_degeneracy() / calculate_element_volumes()')
    obs = U.guarded(ctx, case, key, degen_real, m, hist, derive)
    if obs is None:
        return
    if derive is not None:
        ctx.count('derived:degen:' + step_label(derive[1]))
    hx = m['blocks'].get('hex', [])
    if 'error' not in obs and list(m['blocks']) == ['hex'] and 0 < len(pats) < len(hx):
        ctx.count('degen:hex-only:proper-subset-collapsed:ids-' + ('ascending' if is_ascending(hx) else 'not-ascending'))
    ctx.case(key, sample={**G.describe(m), 'op': 'resolve_degeneracy', 'degenerate': len(pats), **({'history': hist} if hist else {})},
             nontrivial=bool(pats))
    for p in pats.values():
        ctx.count('degen:pattern:' + p)
    ctx.count('degen:types:' + '+'.join(m['blocks']))
    ctx.count('degen:stream:' + stream)
    count_scale(ctx, 'degen', m)
    count_history(ctx, 'degen', hist, obs['trace'])
    if not obs.get('source_unchanged', True):
        ctx.count('degen:source-object-changed')
    if ctx.driver is not None:
        degen_correspond(ctx, m, obs, case)
    if stream == 'unknown-pattern':
        ctx.count('degen:unknown-pattern:' + obs.get('error', 'no-error'))
        return
    if 'error' in obs:
        ctx.fail('degeneracy:raises', 'resolve_degeneracy() raises on one of the four collapse patterns', case,
                 {k: v for k, v in obs.items() if k != 'trace'})
        return
    n0 = len(ctx.failures)
    degen_oracle(ctx, m, pats, obs, case)
    if len(ctx.failures) > n0 and hist and isinstance(ctx.failures[-1]['observed'], dict):
        ctx.failures[-1]['observed']['history_trace'] = obs['trace']


# ------------------------------------------------------------------ (c) make_elements_positive

def invert(m, subset, how):
    m2 = dict(m)
    rows = []
    for k, (e, c) in enumerate(m['blocks']['tet']):
        c = list(c)
        if k in subset:
            i, j = how[k % len(how)]
            c[i], c[j] = c[j], c[i]
        rows.append((e, c))
    m2['blocks'] = {'tet': rows}
    return m2


def positive_real(m, hist=(), derive=None):
    hist = list(hist)
    fd = U.fresh(m)
    before = [float(x) for x in G.quiet(fd.calculate_element_volumes, raise_negative_volume=False)[:, 0]]
    fd = obj_for(m, derive)
    H, _ = run_history(fd, hist, fd.make_elements_positive, 'make_elements_positive')
    obs = {'before': before, 'ids': U.flat_ids(fd), 'conn': [[int(x) for x in r] for r in fd.elements.data],
           'block': [[int(x) for x in r] for r in fd.elements['tet'].data], 'trace': H.trace, 'held': H.held_now(),
           'node_ids': [int(i) for i in fd.nodes.ids]}
    m_after = {'nodes': m['nodes'], 'blocks': {'tet': list(zip(obs['ids'], obs['conn']))}, 'kind': 'after', 'order': m['order']}
    f2 = U.fresh(m_after)
    obs['fresh'] = [float(x) for x in G.quiet(f2.calculate_element_volumes, raise_negative_volume=False)[:, 0]]
    return obs


def positive_oracle(ctx, m, obs, case):
    rows = m['blocks']['tet']
    sc = mesh_scale(m)
    X = U.coords_exact(m)
    if obs['ids'] != [e for e, _ in rows] or obs['block'] != obs['conn'] or obs['node_ids'] != [i for i, _ in m['nodes']]:
        ctx.fail('positive:ids-changed', 'make_elements_positive() changed element / node ids or left the block inconsistent', case, {})
        return
    for k, (e, c) in enumerate(rows):
        c2 = obs['conn'][k]
        what = {'element': e, 'before': c, 'after': c2, 'volume_before': obs['before'][k], 'fresh_volume_after': obs['fresh'][k]}
        if sorted(c2) != sorted(c):
            ctx.fail('positive:nodes-changed', 'make_elements_positive() changed the node set of an element', case, what)
            return
        v1 = G.tet6([X[i] for i in c]) / 6
        v2 = G.tet6([X[i] for i in c2]) / 6
        if abs(v1) != abs(v2) or not U.close(abs(obs['before'][k]), abs(obs['fresh'][k]), U.TOL_LINEAR * sc):
            ctx.fail('positive:abs-volume-changed', 'make_elements_positive() changed the absolute volume of an element', case, what)
            return
        for h in obs['held']:
            # what the caller holds from a volume / metric query made on the same object before the call ("the absolute
            # volume as before"; tetrahedra: every mode is the same kernel) - the LIVE array, so a later call that
            # overwrites what an earlier query returned shows up here
            if len(h['values']) != len(rows) or not U.close(abs(h['values'][k]), abs(obs['fresh'][k]), U.TOL_LINEAR * sc):
                what['volume_held_by_the_caller_from_prior_call'] = {'call': h['call'], 'value': h['values'][k] if k < len(h['values']) else None}
                ctx.fail('positive:abs-volume-changed', 'the absolute volume of an element after make_elements_positive() differs from '
                         'the one a query on the same object returned before', case, what)
                return
        if v2 < 0 or obs['fresh'][k] < -U.TOL_LINEAR * sc:
            ctx.fail('positive:still-negative', 'a freshly evaluated volume is negative after make_elements_positive()', case, what)
            return


def positive_correspond(ctx, m, obs, case):
    t = C.Toks(ctx.driver.ask('c18.positive ' + G.enc_mesh(m)))
    t.tok()
    after = t.lst(lambda: (t.nat(), t.lst(t.nat)))
    vb = t.lst(t.rat)
    va = t.lst(t.rat)
    if after != list(zip(obs['ids'], obs['conn'])):
        k = next((i for i, (x, y) in enumerate(zip(after, zip(obs['ids'], obs['conn']))) if x != y), 0)
        ctx.disagree('connectivity after make_elements_positive()', case, (obs['ids'][k], obs['conn'][k]), after[k])
        return after
    sc = mesh_scale(m)
    for k in range(len(vb)):
        if not U.close(vb[k], obs['before'][k], U.TOL_LINEAR * sc) or not U.close(va[k], obs['fresh'][k], U.TOL_LINEAR * sc):
            ctx.disagree('tet volumes before / after', case, [obs['before'][k], obs['fresh'][k]], [float(vb[k]), float(va[k])])
            break
        if va[k] < 0 or abs(va[k]) != abs(vb[k]):
            ctx.disagree('model: C18_positive instance violated', case, None, [str(vb[k]), str(va[k])])
            break
    return after


def hist_tokens(hist):
    """the modelled part of a history as driver tokens (+ the final make_elements_positive)"""
    ops = []
    for c in hist:
        if c[0] == 'metrics':
            ops.append(f'm {int(c[1])} {int(c[2])}')
        elif c[0] == 'volumes':
            ops.append(f'v {int(c[2])} {int(c[3])}')
        elif c[0] == 'again':
            ops.append('p')
        elif c == ['query', 'e2n_mean']:
            ops.append('m 0 0')       # convert_elemental2nodal(mode='mean') asks calculate_element_metrics(raise_negative_metric=False)
    ops.append('p')
    return f'{len(ops)} ' + ' '.join(ops), len(ops) > 1


def history_correspond(ctx, m, obs, case, hist, tally):
    """connectivity after the history: the tree must behave as Cfg.freshMetric = true (`C18_positive_any_history`), i.e.
    as if there had been no history; Cfg.upstream (decision from the stored metric) is evaluated for the detection"""
    toks, modelled = hist_tokens(hist)
    impl = list(zip(obs['ids'], obs['conn']))
    res = {}
    for cfg in ((1, 0) if modelled else (1,)):
        t = C.Toks(ctx.driver.ask(f'c18.hist {cfg} {G.enc_mesh(m)} {toks}'))
        res[cfg] = t.lst(lambda: (t.nat(), t.lst(t.nat))) if t.tok() == 'ok' else None
    if not modelled:
        res[0] = res[1]
    for cfg in (1, 0):
        tally[cfg][0 if res[cfg] == impl else 1] += 1
    if res[1] != impl:
        k = next((i for i, (x, y) in enumerate(zip(res[1] or [], impl)) if x != y), 0)
        ctx.disagree('connectivity after a history of calls + make_elements_positive() differs from Cfg.fixed'
                     + (' (tree behaves as Cfg.upstream: make_elements_positive decides from the stored metric)' if res[0] == impl else ''),
                     case, impl[k] if k < len(impl) else None, (res[1] or [None])[k] if k < len(res[1] or []) else None)
    return res[1]


def positive_case(ctx, m, subset, label, hist=(), tally=None, derive=None):
    """derive = (source tet mesh, steps): make_elements_positive runs on the derived object; the inverted subset is recomputed
    exactly from the derived object's description"""
    hist = list(hist)
    if derive is not None:
        m = materialise(ctx, derive, 'positive')
        if m is None or list(m['blocks']) != ['tet']:
            return
        X = U.coords_exact(m)
        subset = {k for k, (e, c) in enumerate(m['blocks']['tet']) if G.tet6([X[i] for i in c]) < 0}
    case = mesh_case(m, op='make_elements_positive', inverted=sorted(subset))
    key = ('pos', tuple(m['nodes']), tuple((e, tuple(c)) for e, c in m['blocks']['tet']))
    if hist:
        # history: the calls of `hist` on the object, then fd.make_elements_positive()
        case['history'] = hist
        key = key + (repr(hist),)
    case, key = derived_case(case, key, m, derive)
    U.stage('make_elements_positive() / calculate_element_volumes()')
    obs = U.guarded(ctx, case, key, positive_real, m, hist, derive)
    if obs is None:
        return
    if derive is not None:
        ctx.count('derived:positive:' + step_label(derive[1]))
    sample = {**G.describe(m), 'op': 'make_elements_positive', 'inverted': len(subset)}
    if hist:
        sample['history'] = hist
    ctx.case(key, sample=sample, nontrivial=bool(subset))
    ctx.count('positive:' + label)
    count_scale(ctx, 'positive', m)
    ctx.count('positive:order:' + m['order'])
    count_history(ctx, 'positive', hist, obs['trace'])
    if ctx.driver is not None:
        after = positive_correspond(ctx, m, obs, case)
        if hist:
            h_after = history_correspond(ctx, m, obs, case, hist, tally if tally is not None else {1: [0, 0], 0: [0, 0]})
            if after is not None and h_after is not None and after != h_after:
                ctx.disagree('model: C18_positive_any_history instance violated', case, None, [after[:3], h_after[:3]])
    n0 = len(ctx.failures)
    positive_oracle(ctx, m, obs, case)
    if len(ctx.failures) > n0 and hist and isinstance(ctx.failures[-1]['observed'], dict):
        ctx.failures[-1]['observed']['history_trace'] = obs['trace']


def positive_other_case(ctx, m, derive=None):
    """make_elements_positive() on a positive mesh of other element types (empty subset of inverted elements): nothing
    may change.  femio has no metric for pyramids (NotImplementedError): labelled stream, never a failure."""
    if derive is not None:
        m = materialise(ctx, derive, 'positive-other')
        if m is None:
            return
        ctx.count('derived:positive-other:' + step_label(derive[1]))
    case = mesh_case(m, op='make_elements_positive_other')
    key = ('pos-other', tuple(m['nodes']), tuple((t, tuple((e, tuple(c)) for e, c in b)) for t, b in m['blocks'].items()))
    case, key = derived_case(case, key, m, derive)
    fd = obj_for(m, derive)
    U.stage('make_elements_positive()')
    try:
        G.quiet(fd.make_elements_positive)
    except NotImplementedError as e:
        ctx.case(key, sample={**G.describe(m), 'op': 'make_elements_positive', 'raised': 'NotImplementedError'}, nontrivial=False)
        ctx.count('positive:other-types:' + ('pyramid-metric-not-implemented' if 'pyr' in m['blocks'] else 'not-implemented'))
        if 'pyr' not in m['blocks']:
            ctx.fail('raises:make_elements_positive():NotImplementedError', 'make_elements_positive() raised on a positive mesh without '
                     'pyramids (nothing to re-orient)', case, {'error': repr(e)})
        return
    except Exception as e:  # noqa
        ctx.case(key, sample={**G.describe(m), 'op': 'make_elements_positive', 'raised': type(e).__name__}, nontrivial=False)
        ctx.fail(f'raises:make_elements_positive():{type(e).__name__}', 'make_elements_positive() raised on a positive mesh', case,
                 {'error': repr(e)})
        return
    ctx.case(key, sample={**G.describe(m), 'op': 'make_elements_positive', 'inverted': 0}, nontrivial=False)
    ctx.count('positive:other-types:' + '+'.join(m['blocks']))
    if not source_unchanged(fd, m):
        ctx.fail('positive:nodes-changed', 'make_elements_positive() changed a mesh without inverted elements', case,
                 {'blocks_after': {t: b[:3] for t, b in blocks_of(fd).items()}})


# ------------------------------------------------------------------ run

SWAPS = [[(0, 1)], [(1, 2)], [(2, 3)], [(0, 3)], [(0, 1), (1, 2), (2, 3), (0, 2), (1, 3), (0, 3)]]


def run(ctx):
    rnd = ctx.rng
    boost = 1 if ctx.driver is not None else 2
    tally = {1: [0, 0], 0: [0, 0]}
    tally_h = {1: [0, 0], 0: [0, 0]}
    for name, obj in C.corpus_cases(PROP):
        try:
            replay(ctx, obj, record=True)
            ctx.count('corpus')
        except Exception as e:  # noqa
            ctx.notes.append(f'corpus case {name}: {e!r}')
    # (a) to_polyhedron; every second group of 15 (all kinds x orders) after a random history on the source object;
    #     tet meshes: half with a random inverted subset
    kinds = ['tet', 'hex', 'prism', 'pyr', 'mixed']
    orders = ['asc', 'desc', 'shuf']
    for k in range(ctx.n(60, 1200) * boost):
        m = G.gen_geometric(rnd, kind=kinds[k % 5], max_cells=2 if ctx.quick else 3, order=orders[(k // 5) % 3],
                            id_style=rnd.choice(['dense', 'sparse', 'large', 'prefix']))
        with_history = (k // 15) % 2 == 1
        hist = gen_history(rnd) if with_history else []
        if kinds[k % 5] == 'tet' and (k // 15) % 4 >= 2:
            n = len(m['blocks']['tet'])
            subset = {i for i in range(n) if rnd.random() < rnd.choice([.1, .5, .9])}
            m = invert(m, subset, SWAPS[-1])
            m['kind'] = 'tet+inverted'
            ctx.count('poly:inverted-subset:' + ('empty' if not subset else 'non-empty'))
        poly_case(ctx, m, tally, hist)
    if ctx.driver is not None:
        ctx.extra['cfg_matches'] = {'fixed': {'match': tally[1][0], 'differ': tally[1][1]},
                                    'upstream(F10)': {'match': tally[0][0], 'differ': tally[0][1]}}
        ctx.extra['cfg_detected'] = [n for c, n in ((1, 'fixed'), (0, 'upstream')) if tally[c][1] == 0]
    # (b) resolve_degeneracy: each pattern alone on one hex, then random subsets (every second group of 5 after a history)
    for name in sorted(PATTERNS):
        for order in orders:
            m = G.gen_geometric(rnd, kind='hex', max_cells=1, voids=False, order=order)
            m2, pats = collapse(ctx, m, force=name)
            degen_case(ctx, m2, pats)
    for k in range(ctx.n(40, 800) * boost):
        m = G.gen_geometric(rnd, kind=['hex', 'mixed', 'hex', 'prism', 'tet'][k % 5], max_cells=2 if ctx.quick else 3)
        m2, pats = collapse(ctx, m, p_deg=rnd.choice([.2, .5, 1.0]))
        degen_case(ctx, m2, pats, hist=gen_history(rnd) if (k // 5) % 2 == 1 else [])
    for k in range(ctx.n(6, 30)):
        m = G.gen_geometric(rnd, kind='hex', max_cells=2)
        m2, pats = collapse(ctx, m, p_deg=.5, broken=True)
        if pats:
            degen_case(ctx, m2, pats, stream='unknown-pattern')
    # (c) make_elements_positive: all subsets of a 6-tet mesh, then random subsets
    for rep in range(ctx.n(1, 4)):
        m = G.gen_geometric(rnd, kind='tet', max_cells=1, voids=False, order=orders[rep % 3])
        n = len(m['blocks']['tet'])
        how = SWAPS[rep % len(SWAPS)] if rep else SWAPS[-1]
        for r in range(n + 1):
            for subset in itertools.combinations(range(n), r):
                positive_case(ctx, invert(m, set(subset), how), subset, 'exhaustive-6-tets')
    for k in range(ctx.n(30, 700) * boost):
        m = G.gen_geometric(rnd, kind='tet', max_cells=2 if ctx.quick else 3)
        n = len(m['blocks']['tet'])
        subset = {i for i in range(n) if rnd.random() < rnd.choice([.1, .5, .9])}
        positive_case(ctx, invert(m, subset, SWAPS[-1]), subset, 'random-subset')
    # (c') the same after a history of public calls on the same object: every subset of a 6-tet mesh paired with the
    #      enumerated histories (each history meets several subsets), random subsets after random histories
    enum = enum_histories()
    for rep in range(ctx.n(1, 3)):
        m = G.gen_geometric(rnd, kind='tet', max_cells=1, voids=False, order=['shuf', 'desc', 'asc'][rep % 3])
        n = len(m['blocks']['tet'])
        how = SWAPS[-1] if rep == 0 else SWAPS[rep % len(SWAPS)]
        j = rnd.randrange(len(enum))
        subsets = [s_ for r in range(n + 1) for s_ in itertools.combinations(range(n), r)]
        rnd.shuffle(subsets)
        for subset in subsets:
            positive_case(ctx, invert(m, set(subset), how), subset, 'history:exhaustive-6-tets', hist=enum[j % len(enum)], tally=tally_h)
            j += 1
    for k in range(ctx.n(30, 500) * boost):
        m = G.gen_geometric(rnd, kind='tet', max_cells=2 if ctx.quick else 3)
        n = len(m['blocks']['tet'])
        subset = {i for i in range(n) if rnd.random() < rnd.choice([.1, .5, .9])}
        positive_case(ctx, invert(m, subset, SWAPS[-1]), subset, 'history:random-subset', hist=gen_history(rnd), tally=tally_h)
    if ctx.driver is not None:
        ctx.extra['cfg_history_matches'] = {'fixed(freshMetric)': {'match': tally_h[1][0], 'differ': tally_h[1][1]},
                                            'upstream(stored metric)': {'match': tally_h[0][0], 'differ': tally_h[0][1]}}
        ctx.extra['cfg_history_detected'] = [n for c, n in ((1, 'fixed'), (0, 'upstream')) if tally_h[c][1] == 0]
    # (c'') positive meshes of the other element types: nothing to re-orient
    for k in range(ctx.n(6, 60)):
        positive_other_case(ctx, G.gen_geometric(rnd, kind=['hex', 'prism', 'mixed'][k % 3], max_cells=2))
    # (d) stream `absolute-scale`: the same meshes scaled exactly by 2^-20 .. 2^10, all three operations
    E = ABS_EXPONENTS
    for k in range(ctx.n(14, 140) * boost):
        m = G.gen_geometric(rnd, kind=kinds[k % 5], max_cells=2 if ctx.quick else 3, order=orders[(k // 5) % 3],
                            id_style=rnd.choice(['dense', 'sparse', 'large', 'prefix']))
        poly_case(ctx, scaled(m, E[k % len(E)]), {1: [0, 0], 0: [0, 0]}, gen_history(rnd) if k % 3 == 2 else [])
    for k in range(ctx.n(14, 140) * boost):
        m = G.gen_geometric(rnd, kind=['hex', 'mixed', 'hex', 'prism'][k % 4], max_cells=2 if ctx.quick else 3)
        m2, pats = collapse(ctx, scaled(m, E[(k + 3) % len(E)]), p_deg=rnd.choice([.5, 1.0]))
        degen_case(ctx, m2, pats, hist=gen_history(rnd) if k % 3 == 2 else [])
    # every subset of inverted tets of a 6-tet mesh, the scales rotating over the subsets (thorough: every subset at every scale)
    for rep in range(ctx.n(1, len(E))):
        m = G.gen_geometric(rnd, kind='tet', max_cells=1, voids=False, order=orders[rep % 3])
        n = len(m['blocks']['tet'])
        subsets = [s_ for r in range(n + 1) for s_ in itertools.combinations(range(n), r)]
        j = rnd.randrange(len(enum))
        for q, subset in enumerate(subsets):
            hist = enum[(j + q) % len(enum)] if q % 4 == 3 else []
            positive_case(ctx, invert(scaled(m, E[(q + rep) % len(E)]), set(subset), SWAPS[-1]), subset,
                          'absolute-scale:exhaustive-6-tets' + (':history' if hist else ''), hist=hist)
    for k in range(ctx.n(21, 280) * boost):
        m = G.gen_geometric(rnd, kind='tet', max_cells=2 if ctx.quick else 3)
        n = len(m['blocks']['tet'])
        subset = {i for i in range(n) if rnd.random() < rnd.choice([.1, .5, .9])}
        hist = gen_history(rnd) if k % 2 else []
        positive_case(ctx, invert(scaled(m, E[k % len(E)]), subset, SWAPS[-1]), subset,
                      'absolute-scale:random-subset' + (':history' if hist else ''), hist=hist)
    for k in range(ctx.n(7, 42)):
        positive_other_case(ctx, scaled(G.gen_geometric(rnd, kind=['hex', 'prism', 'mixed'][k % 3], max_cells=2), E[k % len(E)]))
    # (e) stream `derived` (round 5, class S): the three operations on objects OBTAINED from other objects by public calls
    #     (every fourth case at an absolute scale); the styles rotate so that every seed meets every style
    ST_POLY = ['resolve', 'cut-all', 'resolve', 'cut-subset', 'cut>resolve', 'extract', 'resolve>cut', 'cut-type', 'resolve-noop']
    for k in range(ctx.n(27, 270) * boost):
        style = ST_POLY[k % len(ST_POLY)]
        kind = (['hex', 'hex', 'mixed'] if 'resolve' in style and style != 'resolve-noop' else kinds)[(k // len(ST_POLY)) % (3 if 'resolve' in style and style != 'resolve-noop' else 5)]
        m, steps, _ = derived_source(ctx, style, kind, exp=E[k % len(E)] if k % 4 == 3 else None)
        poly_case(ctx, None, {1: [0, 0], 0: [0, 0]}, gen_history(rnd) if k % 3 == 2 else [], derive=(m, steps))
    ST_DEGEN = ['cut-all', 'resolve', 'cut-subset', 'extract', 'resolve>cut']
    for k in range(ctx.n(10, 100) * boost):
        style = ST_DEGEN[k % len(ST_DEGEN)]
        m, steps, pats = derived_source(ctx, style, ['hex', 'mixed', 'hex'][(k // len(ST_DEGEN)) % 3],
                                        exp=E[k % len(E)] if k % 4 == 3 else None, degenerate=True)
        degen_case(ctx, None, pats, stream='derived', hist=gen_history(rnd) if k % 3 == 2 else [], derive=(m, steps))
    ST_POS = ['cut-all', 'cut-subset', 'extract', 'resolve-noop']
    for k in range(ctx.n(12, 120) * boost):
        m = G.gen_geometric(rnd, kind='tet', max_cells=2)
        n = len(m['blocks']['tet'])
        m = invert(m, {i for i in range(n) if rnd.random() < rnd.choice([.1, .5, .9])}, SWAPS[-1])
        if k % 4 == 3:
            m = scaled(m, E[k % len(E)])
        eids = all_eids(m)
        style = ST_POS[k % len(ST_POS)]
        steps = {'cut-all': [['cut_with_element_ids', shuffled_request(rnd, eids, False)]],
                 'cut-subset': [['cut_with_element_ids', shuffled_request(rnd, eids, True)]],
                 'extract': [['extract_with_element_indices', shuffled_request(rnd, range(n), rnd.random() < .5)]],
                 'resolve-noop': [['resolve_degeneracy']]}[style]
        hist = gen_history(rnd) if k % 2 else []
        positive_case(ctx, None, None, 'derived:' + style + (':history' if hist else ''), hist=hist, derive=(m, steps))
    for k in range(ctx.n(6, 60)):
        m, steps, _ = derived_source(ctx, ['resolve', 'cut>resolve', 'resolve>cut'][k % 3], ['hex', 'mixed'][(k // 3) % 2],
                                     exp=E[k % len(E)] if k % 4 == 3 else None)
        positive_other_case(ctx, None, derive=(m, steps))
    ctx.extra['p_tie'] = {'tolerance_centroid': U.TOL_CENTROID, 'tolerance_linear': U.TOL_LINEAR, 'scale': 'max|coordinate|^3'}


def replay(ctx, obj, record=False):
    inp = obj['input']
    m = G.from_json(inp['mesh'])
    if 'abs_exp' in inp:
        m['abs_exp'] = inp['abs_exp']
    n0, d0 = len(ctx.failures), len(ctx.disagreements)
    op = inp.get('op')
    hist = inp.get('history') or legacy_history(inp.get('prior_query'))
    derive = None
    if 'derived_from' in inp:
        m_src = G.from_json(inp['derived_from']['mesh'])
        if 'abs_exp' in inp:
            m_src['abs_exp'] = inp['abs_exp']
        derive = (m_src, inp['derived_from']['steps'])
    if op == 'to_polyhedron':
        poly_case(ctx, m, {1: [0, 0], 0: [0, 0]}, hist, derive=derive)
    elif op == 'resolve_degeneracy':
        degen_case(ctx, m, {int(k): v for k, v in inp.get('patterns', {}).items()}, hist=hist, derive=derive)
    elif op == 'make_elements_positive':
        positive_case(ctx, m, set(inp.get('inverted', [])), 'replay', hist=hist, derive=derive)
    elif op == 'make_elements_positive_other':
        positive_other_case(ctx, m, derive=derive)
    else:
        return {'fails': False, 'error': 'unknown op'}
    return {'op': op, 'describe': G.describe(m),
            'failures': [{'signature': f['signature'], 'what': f['what'], 'observed': f['observed']} for f in ctx.failures[n0:]],
            'model_disagreements': [{'what': d['what'], 'impl': d['impl'], 'model': d['model']} for d in ctx.disagreements[d0:]],
            'fails': len(ctx.failures) > n0}
