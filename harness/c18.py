"""C18 - re-typing elements (to_polyhedron, resolve_degeneracy, make_elements_positive) keeps shape
(DESIGN.md section 4, C18).

Tie T: polyhedron face patterns (tabulated under a non-identity argsort), degeneracy patterns -> Gen/Tables.lean
       (`decide` / `ring` obligations in Props/C18; `C18_pyr_table` fails while pyr_to_polyhedron omits argsort: F10).
Tie D: face data of `to_polyhedron()` (vs the model for Cfg.fixed and Cfg.upstream: exactly one must reproduce
       the tree), element blocks of `resolve_degeneracy()`, connectivity after `make_elements_positive()`.
Tie P: exact-rational polyhedron / element volumes of the model vs the float kernels, on fresh objects.
Oracle: the property on the real API: per element closed / own nodes / outward / equal volume; the four collapse
        patterns; every subset of inverted tets of small meshes; fresh-object volume >= 0.
Stream `positive:prior-query:*` (inside the quantifier, reported through `fail`): the object is queried through the
        public API before make_elements_positive() - calculate_element_volumes(return_abs_volume=True,
        raise_negative_volume=False), i.e. the caller records "the absolute volume as before" on the same object, or the
        signed variant - then the same clauses are checked (same nodes, same |V| as the recorded one, fresh-object volume >= 0).
"""
import itertools
from fractions import Fraction as F

import numpy as np

from . import common as C
from . import meshgen as G
from . import d_util as U

PROP = 'C18'
LEAN_MODULES = ['Femio.Props.C18', 'Femio.Props.C18Pyr']
THEOREMS = ['C18_pos_correct', 'C18_pyr_table', 'C18_poly_closed', 'C18_poly_own_nodes', 'C18_poly_outward_volume',
            'C18_poly_kernels', 'C18_degeneracy', 'C18_degeneracy_untouched', 'C18_positive', 'C18_permute_table', 'C18_pyr_counterexample']
PARTIAL = [
    'C18_poly_outward_volume: volumes are the centroid-fan kernels (exact for planar faces; for warped quadrilaterals '
    'the polyhedron "linear" kernel and the hex / prism / pyr "linear" kernels triangulate differently and are not '
    'claimed equal)',
    'C18_degeneracy: volume equality is between the centroid kernels of the degenerate hex and of the prism',
    'make_elements_positive is modelled for tet meshes (femio raises NotImplementedError for every other type)',
]
RULE = ('(a) to_polyhedron: seeded geometric meshes (tet / hex / prism / pyr / mixed) with node ids in ascending, '
        'descending and shuffled storage order, dense / sparse / large ids; (b) resolve_degeneracy: hex and '
        'hex+prism(+pyr) meshes in which a random subset of hexahedra is collapsed along one of the four edge pairs '
        '(01, 12, 23, 30), every pattern also alone on a single hex, plus a labelled stream of unknown patterns '
        '(ValueError expected); (c) make_elements_positive: every subset of inverted tets of 6-tet meshes '
        '(2^6 subsets) and random subsets of larger tet meshes, each also as a history "prior abs-volume query" '
        '(calculate_element_volumes(return_abs_volume=True, raise_negative_volume=False) on the same object, then '
        'make_elements_positive()) and "prior signed-volume query"; non-trivial = storage order differs from ascending '
        'ids (a), at least one degenerate hex (b), at least one inverted tet (c)')
ASSUMPTIONS = [
    'volumes are evaluated on fresh objects (stored `volume` / `metric` entries are stale after '
    'make_elements_positive: DESIGN section 5 F11, property C19)',
    'original per-element volumes are evaluated block by block (the `mix` branch of calculate_element_volumes '
    'mis-assigns per-block results when a block is not stored in ascending id order; outside C18)',
    'node ids < 2^31 (to_polyhedron casts connectivity to int32)',
]
TRUSTED = ['C18: harness/meshgen.py face tables are the oracle\'s independent definition of an element\'s boundary']

PATTERNS = {'01': (0, 1), '12': (1, 2), '23': (2, 3), '30': (3, 0)}


# ------------------------------------------------------------------ (a) to_polyhedron

def decode_faces(dat):
    dat = [int(x) for x in dat]
    n, i, fs = dat[0], 1, []
    for _ in range(n):
        k = dat[i]
        fs.append(dat[i + 1:i + 1 + k])
        i += 1 + k
    return fs, i == len(dat)


def poly_real(m):
    fd = U.fresh(m)
    poly = G.quiet(fd.to_polyhedron)
    obs = {'ids': [int(i) for i in poly.elements.ids], 'types': list(poly.elements.keys()),
           'conn': [[int(x) for x in r] for r in poly.elements.data],
           'face': [[int(x) for x in r] for r in poly.elemental_data['face']['polyhedron'].data],
           'node_ids': [int(i) for i in poly.nodes.ids]}
    for mode in ('centroid', 'linear'):
        fd2 = U.fresh(m)
        p2 = G.quiet(fd2.to_polyhedron)
        obs['vol_' + mode] = [float(x) for x in G.quiet(p2.calculate_element_volumes, mode=mode, raise_negative_volume=False)[:, 0]]
        obs['orig_' + mode] = U.real_volumes(m, mode)
    return obs


def poly_oracle(ctx, m, obs, case):
    ids = [i for i, _ in m['nodes']]
    X = U.coords_exact(m)
    els = {e: (t, c) for t, e, c in U.elem_list(m)}
    sc = U.scale(m)
    if sorted(obs['ids']) != sorted(els) or obs['types'] != ['polyhedron'] or obs['node_ids'] != ids:
        ctx.fail('poly:ids-changed', 'to_polyhedron() changed the element ids / nodes', case, {'ids': obs['ids'][:8]})
        return
    for k, e in enumerate(obs['ids']):
        t, c = els[e]
        if obs['conn'][k] != c:
            ctx.fail('poly:connectivity-changed', 'to_polyhedron() changed an element\'s node list', case, {'element': e})
            return
        fs, ok = decode_faces(obs['face'][k])
        what = {'element': e, 'type': t, 'connectivity': c, 'faces_as_positions': fs}
        if not ok or any(p < 0 or p >= len(ids) for f in fs for p in f):
            ctx.fail(f'poly:{t}:malformed-face-data', 'face data of a polyhedron is malformed', case, what)
            return
        fid = [[ids[p] for p in f] for f in fs]
        what['faces_as_ids'] = fid
        if not set(i for f in fid for i in f) <= set(c):
            ctx.fail(f'poly:{t}:foreign-node', 'a polyhedron face refers to a node that is not a node of its element', case, what)
            return
        if set(i for f in fid for i in f) != set(c):
            ctx.fail(f'poly:{t}:node-missing', 'the faces of a polyhedron do not use all nodes of the element', case, what)
            return
        ec = {}
        for f in fid:
            for d in U.dir_edges(f):
                ec[d] = ec.get(d, 0) + 1
        if any(n != 1 or ec.get((d[1], d[0]), 0) != 1 for d, n in ec.items()):
            ctx.fail(f'poly:{t}:not-closed', 'the face list of a polyhedron is not a closed oriented surface', case, what)
            return
        vol = sum(U.face_flux([X[i] for i in f]) for f in fid)
        ref = sum(U.face_flux([X[c[i]] for i in f]) for f in G.FACES[t])
        if vol != ref:
            ctx.fail(f'poly:{t}:volume-differs', 'the volume enclosed by the polyhedron faces differs from the element\'s volume',
                     case, {**what, 'enclosed': str(vol), 'element_volume': str(ref)})
            return
        if ref > 0 and not vol > 0:
            ctx.fail(f'poly:{t}:inward', 'the polyhedron faces of a positive element are not oriented outwards', case, what)
            return
        if not U.close(obs['vol_centroid'][k], obs['orig_centroid'][e], 2 * U.TOL_CENTROID * sc):
            ctx.fail(f'poly:{t}:volume-differs', 'calculate_element_volumes() of the polyhedron differs from the element\'s volume',
                     case, {**what, 'polyhedron': obs['vol_centroid'][k], 'element': obs['orig_centroid'][e]})
            return
        if t == 'tet' and not U.close(obs['vol_linear'][k], obs['orig_linear'][e], U.TOL_LINEAR * sc):
            ctx.fail(f'poly:{t}:volume-differs', 'calculate_element_volumes(mode="linear") of the polyhedron differs from the element\'s volume',
                     case, {**what, 'polyhedron': obs['vol_linear'][k], 'element': obs['orig_linear'][e]})
            return


def poly_correspond(ctx, m, obs, case, tally):
    enc = G.enc_mesh(m)
    res = {}
    for cfg in (1, 0):
        t = C.Toks(ctx.driver.ask(f'c18.poly {cfg} ' + enc))
        if t.tok() != 'ok':
            res[cfg] = None
            continue
        res[cfg] = t.lst(lambda: (t.nat(), t.lst(t.nat), t.lst(t.nat), t.rat(), t.rat(), t.rat(), t.rat()))
    impl = list(zip(obs['ids'], obs['conn'], obs['face']))
    for cfg in (1, 0):
        ok = res[cfg] is not None and [(a, b, c) for a, b, c, *_ in res[cfg]] == impl
        tally[cfg][0 if ok else 1] += 1
    if res[1] is None:
        ctx.disagree('to_polyhedron: model error', case, 'ok', 'err')
        return
    if [(a, b, c) for a, b, c, *_ in res[1]] != impl:
        k = next((i for i, (x, y) in enumerate(zip(res[1], impl)) if (x[0], x[1], x[2]) != y), 0)
        same_up = res[0] is not None and [(a, b, c) for a, b, c, *_ in res[0]] == impl
        ctx.disagree('to_polyhedron face data differs from Cfg.fixed' + (' (tree behaves as Cfg.upstream = F10, argsort omitted for pyr)' if same_up else ''),
                     case, impl[k] if k < len(impl) else None, list(res[1][k][:3]) if k < len(res[1]) else None)
        return
    sc = U.scale(m)
    for k, (e, _, _, vl, vc, ol, oc) in enumerate(res[1]):
        if not U.close(vc, obs['vol_centroid'][k], U.TOL_CENTROID * sc) or not U.close(vl, obs['vol_linear'][k], U.TOL_LINEAR * sc):
            ctx.disagree('polyhedron volume kernels', case, [obs['vol_centroid'][k], obs['vol_linear'][k]], [float(vc), float(vl)])
            break
        if vc != oc:
            ctx.disagree('model: polyhedron centroid volume != element centroid volume (C18_poly_outward_volume instance)', case, None, [str(vc), str(oc)])
            break


def poly_case(ctx, m, tally):
    case = U.mesh_case(m, op='to_polyhedron')
    ids = [i for i, _ in m['nodes']]
    key = ('poly', tuple(m['nodes']), tuple((t, tuple((e, tuple(c)) for e, c in b)) for t, b in m['blocks'].items()))
    U.stage('to_polyhedron() / calculate_element_volumes()')
    obs = U.guarded(ctx, case, key, poly_real, m)
    if obs is None:
        return
    ctx.case(key, sample={**G.describe(m), 'op': 'to_polyhedron'}, nontrivial=ids != sorted(ids))
    ctx.count('poly:kind:' + m['kind'])
    ctx.count('poly:order:' + m['order'])
    ctx.count('poly:ids:' + str(m.get('id_style')))
    for t in m['blocks']:
        ctx.count('poly:type:' + t, len(m['blocks'][t]))
    if ctx.driver is not None:
        poly_correspond(ctx, m, obs, case, tally)
    n0 = len(ctx.failures)
    poly_oracle(ctx, m, obs, case)
    if len(ctx.failures) > n0 and ctx.failures[-1]['observed'] and 'element' in ctx.failures[-1]['observed']:
        small = shrink_poly(m, ctx.failures[-1]['observed']['element'], ctx.failures[-1]['signature'])
        if small is not None:
            ctx.failures[-1].update(small)


class _Collect:
    def __init__(self):
        self.failures = []

    def fail(self, signature, what, case, observed=None):
        self.failures.append({'signature': signature, 'what': what, 'case': case, 'observed': observed})

    def count(self, *a, **k):
        pass


def shrink_poly(m, eid, signature):
    """smallest sub-mesh on which the same failure class is still observed: the element alone with its own nodes
    (relative storage order kept), else the element alone with all nodes"""
    t, c = next((t, c) for t, e, c in U.elem_list(m) if e == eid)
    for keep_all in (False, True):
        m2 = {'nodes': [(i, p) for i, p in m['nodes'] if keep_all or i in set(c)], 'blocks': {t: [(eid, list(c))]},
              'kind': m['kind'], 'order': m['order']}
        col = _Collect()
        try:
            case = U.mesh_case(m2, op='to_polyhedron', shrunk_from=G.describe(m))
            poly_oracle(col, m2, poly_real(m2), case)
        except Exception:  # noqa
            continue
        if col.failures and col.failures[0]['signature'] == signature:
            return col.failures[0]
    return None


# ------------------------------------------------------------------ (b) resolve_degeneracy

def collapse(ctx, m, p_deg=.5, force=None, broken=False):
    """collapse edge pairs of some hexahedra (geometric collapse of the cell, independent of femio's tables)"""
    m2 = dict(m)
    blocks = {t: [(e, list(c)) for e, c in b] for t, b in m['blocks'].items()}
    pats = {}
    for k, (e, c) in enumerate(blocks.get('hex', [])):
        if force is not None or ctx.rng.random() < p_deg:
            name = force or ctx.rng.choice(sorted(PATTERNS))
            a, b = PATTERNS[name]
            c[b] = c[a]
            if not broken:
                c[b + 4] = c[a + 4]
            pats[e] = name
    m2['blocks'] = blocks
    m2['kind'] = m['kind'] + '+degenerate'
    return m2, pats


def blocks_of(fd):
    return {t: [(int(i), [int(x) for x in r]) for i, r in zip(a.ids, a.data)] for t, a in fd.elements.items()}


def degen_real(m):
    fd = U.fresh(m)
    try:
        r = G.quiet(fd.resolve_degeneracy)
    except ValueError as e:
        return {'error': 'value_error', 'msg': str(e)}
    obs = {'blocks': blocks_of(r), 'node_ids': [int(i) for i in r.nodes.ids]}
    m_after = {'nodes': m['nodes'], 'blocks': {t: [(e, c) for e, c in b] for t, b in obs['blocks'].items()}, 'kind': 'after', 'order': m['order']}
    obs['vol_after'] = U.real_volumes(m_after, 'centroid')
    obs['vol_before'] = U.real_volumes(m, 'centroid')
    return obs


HEX_FACES = G.FACES['hex']


def degen_oracle(ctx, m, pats, obs, case):
    X = U.coords_exact(m)
    sc = U.scale(m)
    before = {e: (t, c) for t, e, c in U.elem_list(m)}
    after = {}
    for t, b in obs['blocks'].items():
        for e, c in b:
            if e in after:
                ctx.fail('degeneracy:duplicate-id', 'an element id occurs twice after resolve_degeneracy()', case, {'element': e})
                return
            after[e] = (t, c)
    if sorted(after) != sorted(before):
        ctx.fail('degeneracy:ids-changed', 'resolve_degeneracy() lost or invented element ids', case,
                 {'lost': sorted(set(before) - set(after))[:5], 'new': sorted(set(after) - set(before))[:5]})
        return
    if obs['node_ids'] != [i for i, _ in m['nodes']]:
        ctx.fail('degeneracy:nodes-changed', 'resolve_degeneracy() changed the nodes', case, None)
        return
    for e, (t, c) in before.items():
        t2, c2 = after[e]
        if e in pats:
            what = {'element': e, 'pattern': pats[e], 'hex': c, 'result_type': t2, 'result': c2}
            if t2 != 'prism':
                ctx.fail(f'degeneracy:{pats[e]}:not-a-prism', 'a degenerate hexahedron was not replaced by a prism', case, what)
                return
            if set(c2) != set(c) or len(set(c2)) != 6:
                ctx.fail(f'degeneracy:{pats[e]}:node-set', 'the prism replacing a degenerate hexahedron has another node set', case, what)
                return
            v_hex = sum(U.face_flux([X[c[i]] for i in f]) for f in HEX_FACES)
            v_pr = sum(U.face_flux([X[c2[i]] for i in f]) for f in G.FACES['prism'])
            if v_hex != v_pr:
                ctx.fail(f'degeneracy:{pats[e]}:volume', 'the prism replacing a degenerate hexahedron has another volume', case,
                         {**what, 'hex_volume': str(v_hex), 'prism_volume': str(v_pr)})
                return
        elif (t2, c2) != (t, c):
            ctx.fail('degeneracy:other-element-touched', 'resolve_degeneracy() changed an element that is not a degenerate hexahedron',
                     case, {'element': e, 'before': [t, c], 'after': [t2, c2]})
            return
        if not U.close(obs['vol_after'][e], obs['vol_before'][e], 2 * U.TOL_CENTROID * sc):
            ctx.fail('degeneracy:volume', 'calculate_element_volumes() differs before / after resolve_degeneracy()', case,
                     {'element': e, 'before': obs['vol_before'][e], 'after': obs['vol_after'][e]})
            return


def degen_correspond(ctx, m, obs, case):
    t = C.Toks(ctx.driver.ask('c18.degen ' + G.enc_mesh(m)))
    st = t.tok()
    if 'error' in obs:
        if not (st == 'err' and t.tok() == obs['error']):
            ctx.disagree('resolve_degeneracy error class', case, obs['error'], ' '.join(t.t[:3]))
        return
    if st != 'ok':
        ctx.disagree('resolve_degeneracy error class', case, 'ok', ' '.join(t.t[:3]))
        return
    mb = t.lst(lambda: (G.ELEMENT_TYPES[t.nat()], t.lst(lambda: (t.nat(), t.lst(t.nat)))))
    impl = [(k, v) for k, v in obs['blocks'].items()]
    if mb != impl:
        ctx.disagree('resolve_degeneracy element blocks', case, [(k, v[:3]) for k, v in impl], [(k, v[:3]) for k, v in mb])


def degen_case(ctx, m, pats, stream='main'):
    case = U.mesh_case(m, op='resolve_degeneracy', patterns={str(k): v for k, v in pats.items()})
    key = ('degen', tuple(m['nodes']), tuple((t, tuple((e, tuple(c)) for e, c in b)) for t, b in m['blocks'].items()))
    U.stage('resolve_degeneracy() / calculate_element_volumes()')
    obs = U.guarded(ctx, case, key, degen_real, m)
    if obs is None:
        return
    ctx.case(key, sample={**G.describe(m), 'op': 'resolve_degeneracy', 'degenerate': len(pats)}, nontrivial=bool(pats))
    for p in pats.values():
        ctx.count('degen:pattern:' + p)
    ctx.count('degen:types:' + '+'.join(m['blocks']))
    ctx.count('degen:stream:' + stream)
    if ctx.driver is not None:
        degen_correspond(ctx, m, obs, case)
    if stream == 'unknown-pattern':
        ctx.count('degen:unknown-pattern:' + obs.get('error', 'no-error'))
        return
    if 'error' in obs:
        ctx.fail('degeneracy:raises', 'resolve_degeneracy() raises on one of the four collapse patterns', case, obs)
        return
    degen_oracle(ctx, m, pats, obs, case)


# ------------------------------------------------------------------ (c) make_elements_positive

def invert(m, subset, how):
    m2 = dict(m)
    rows = []
    for k, (e, c) in enumerate(m['blocks']['tet']):
        c = list(c)
        if k in subset:
            i, j = how[k % len(how)]
            c[i], c[j] = c[j], c[i]
        rows.append((e, c))
    m2['blocks'] = {'tet': rows}
    return m2


PRIOR_QUERIES = {
    # public queries made on the SAME object before make_elements_positive() (histories; the unchanged code recomputes the
    # signed volumes inside make_elements_positive because it passes elements=self.elements down)
    'abs-volume': dict(return_abs_volume=True, raise_negative_volume=False),
    'signed-volume': dict(raise_negative_volume=False),
}


def positive_real(m, prior=None):
    fd = U.fresh(m)
    before = [float(x) for x in G.quiet(fd.calculate_element_volumes, raise_negative_volume=False)[:, 0]]
    fd = U.fresh(m)
    recorded = None
    if prior is not None:
        recorded = [float(x) for x in G.quiet(fd.calculate_element_volumes, **PRIOR_QUERIES[prior])[:, 0]]
    G.quiet(fd.make_elements_positive)
    obs = {'before': before, 'ids': U.flat_ids(fd), 'conn': [[int(x) for x in r] for r in fd.elements.data],
           'block': [[int(x) for x in r] for r in fd.elements['tet'].data]}
    if recorded is not None:
        obs['prior'] = recorded
    m_after = {'nodes': m['nodes'], 'blocks': {'tet': list(zip(obs['ids'], obs['conn']))}, 'kind': 'after', 'order': m['order']}
    f2 = U.fresh(m_after)
    obs['fresh'] = [float(x) for x in G.quiet(f2.calculate_element_volumes, raise_negative_volume=False)[:, 0]]
    return obs


def positive_oracle(ctx, m, obs, case):
    rows = m['blocks']['tet']
    sc = U.scale(m)
    X = U.coords_exact(m)
    if obs['ids'] != [e for e, _ in rows] or obs['block'] != obs['conn']:
        ctx.fail('positive:ids-changed', 'make_elements_positive() changed element ids / left the block inconsistent', case, None)
        return
    for k, (e, c) in enumerate(rows):
        c2 = obs['conn'][k]
        what = {'element': e, 'before': c, 'after': c2, 'volume_before': obs['before'][k], 'fresh_volume_after': obs['fresh'][k]}
        if sorted(c2) != sorted(c):
            ctx.fail('positive:nodes-changed', 'make_elements_positive() changed the node set of an element', case, what)
            return
        v1 = G.tet6([X[i] for i in c]) / 6
        v2 = G.tet6([X[i] for i in c2]) / 6
        if abs(v1) != abs(v2) or not U.close(abs(obs['before'][k]), abs(obs['fresh'][k]), U.TOL_LINEAR * sc):
            ctx.fail('positive:abs-volume-changed', 'make_elements_positive() changed the absolute volume of an element', case, what)
            return
        if 'prior' in obs:
            # the absolute volume the caller recorded on the same object before the call
            what['volume_recorded_before_on_the_same_object'] = obs['prior'][k]
            if not U.close(abs(obs['prior'][k]), abs(obs['fresh'][k]), U.TOL_LINEAR * sc):
                ctx.fail('positive:abs-volume-changed', 'the absolute volume of an element after make_elements_positive() differs from '
                         'the one recorded on the same object before', case, what)
                return
        if v2 < 0 or obs['fresh'][k] < -U.TOL_LINEAR * sc:
            ctx.fail('positive:still-negative', 'a freshly evaluated volume is negative after make_elements_positive()', case, what)
            return


def positive_correspond(ctx, m, obs, case):
    t = C.Toks(ctx.driver.ask('c18.positive ' + G.enc_mesh(m)))
    t.tok()
    after = t.lst(lambda: (t.nat(), t.lst(t.nat)))
    vb = t.lst(t.rat)
    va = t.lst(t.rat)
    if after != list(zip(obs['ids'], obs['conn'])):
        k = next((i for i, (x, y) in enumerate(zip(after, zip(obs['ids'], obs['conn']))) if x != y), 0)
        ctx.disagree('connectivity after make_elements_positive()', case, (obs['ids'][k], obs['conn'][k]), after[k])
        return
    sc = U.scale(m)
    for k in range(len(vb)):
        if not U.close(vb[k], obs['before'][k], U.TOL_LINEAR * sc) or not U.close(va[k], obs['fresh'][k], U.TOL_LINEAR * sc):
            ctx.disagree('tet volumes before / after', case, [obs['before'][k], obs['fresh'][k]], [float(vb[k]), float(va[k])])
            break
        if va[k] < 0 or abs(va[k]) != abs(vb[k]):
            ctx.disagree('model: C18_positive instance violated', case, None, [str(vb[k]), str(va[k])])
            break


def positive_case(ctx, m, subset, label, prior=None):
    case = U.mesh_case(m, op='make_elements_positive', inverted=sorted(subset))
    key = ('pos', tuple(m['nodes']), tuple((e, tuple(c)) for e, c in m['blocks']['tet']))
    if prior is not None:
        # history: fd.calculate_element_volumes(**PRIOR_QUERIES[prior]) on the object, then fd.make_elements_positive()
        case['prior_query'] = prior
        key = key + (prior,)
    U.stage('make_elements_positive() / calculate_element_volumes()')
    obs = U.guarded(ctx, case, key, positive_real, m, prior)
    if obs is None:
        return
    sample = {**G.describe(m), 'op': 'make_elements_positive', 'inverted': len(subset)}
    if prior is not None:
        sample['prior_query'] = prior
        ctx.count('positive:prior-query:' + prior)
    ctx.case(key, sample=sample, nontrivial=bool(subset))
    ctx.count('positive:' + label)
    ctx.count('positive:order:' + m['order'])
    if ctx.driver is not None:
        positive_correspond(ctx, m, obs, case)
    positive_oracle(ctx, m, obs, case)


# ------------------------------------------------------------------ run

SWAPS = [[(0, 1)], [(1, 2)], [(2, 3)], [(0, 3)], [(0, 1), (1, 2), (2, 3), (0, 2), (1, 3), (0, 3)]]


def run(ctx):
    rnd = ctx.rng
    boost = 1 if ctx.driver is not None else 2
    tally = {1: [0, 0], 0: [0, 0]}
    for name, obj in C.corpus_cases(PROP):
        try:
            replay(ctx, obj, record=True)
            ctx.count('corpus')
        except Exception as e:  # noqa
            ctx.notes.append(f'corpus case {name}: {e!r}')
    # (a) to_polyhedron
    kinds = ['tet', 'hex', 'prism', 'pyr', 'mixed']
    orders = ['asc', 'desc', 'shuf']
    for k in range(ctx.n(60, 1200) * boost):
        m = G.gen_geometric(rnd, kind=kinds[k % 5], max_cells=2 if ctx.quick else 3, order=orders[(k // 5) % 3],
                            id_style=rnd.choice(['dense', 'sparse', 'large', 'prefix']))
        poly_case(ctx, m, tally)
    if ctx.driver is not None:
        ctx.extra['cfg_matches'] = {'fixed': {'match': tally[1][0], 'differ': tally[1][1]},
                                    'upstream(F10)': {'match': tally[0][0], 'differ': tally[0][1]}}
        ctx.extra['cfg_detected'] = [n for c, n in ((1, 'fixed'), (0, 'upstream')) if tally[c][1] == 0]
    # (b) resolve_degeneracy: each pattern alone on one hex, then random subsets
    for name in sorted(PATTERNS):
        for order in orders:
            m = G.gen_geometric(rnd, kind='hex', max_cells=1, voids=False, order=order)
            m2, pats = collapse(ctx, m, force=name)
            degen_case(ctx, m2, pats)
    for k in range(ctx.n(40, 800) * boost):
        m = G.gen_geometric(rnd, kind=['hex', 'mixed', 'hex', 'prism', 'tet'][k % 5], max_cells=2 if ctx.quick else 3)
        m2, pats = collapse(ctx, m, p_deg=rnd.choice([.2, .5, 1.0]))
        degen_case(ctx, m2, pats)
    for k in range(ctx.n(6, 30)):
        m = G.gen_geometric(rnd, kind='hex', max_cells=2)
        m2, pats = collapse(ctx, m, p_deg=.5, broken=True)
        if pats:
            degen_case(ctx, m2, pats, stream='unknown-pattern')
    # (c) make_elements_positive: all subsets of a 6-tet mesh, then random subsets
    for rep in range(ctx.n(1, 4)):
        m = G.gen_geometric(rnd, kind='tet', max_cells=1, voids=False, order=orders[rep % 3])
        n = len(m['blocks']['tet'])
        how = SWAPS[rep % len(SWAPS)] if rep else SWAPS[-1]
        for r in range(n + 1):
            for subset in itertools.combinations(range(n), r):
                positive_case(ctx, invert(m, set(subset), how), subset, 'exhaustive-6-tets')
    for k in range(ctx.n(30, 700) * boost):
        m = G.gen_geometric(rnd, kind='tet', max_cells=2 if ctx.quick else 3)
        n = len(m['blocks']['tet'])
        subset = {i for i in range(n) if rnd.random() < rnd.choice([.1, .5, .9])}
        positive_case(ctx, invert(m, subset, SWAPS[-1]), subset, 'random-subset')
    # (c') the same with a prior public query on the same object (drawn after the streams above, so that their cases are
    #      unchanged for a given seed): every subset of a 6-tet mesh after an abs-volume query, random subsets after either query
    for rep in range(ctx.n(1, 3)):
        m = G.gen_geometric(rnd, kind='tet', max_cells=1, voids=False, order=['shuf', 'desc', 'asc'][rep % 3])
        n = len(m['blocks']['tet'])
        how = SWAPS[-1] if rep == 0 else SWAPS[rep % len(SWAPS)]
        for r in range(n + 1):
            for subset in itertools.combinations(range(n), r):
                positive_case(ctx, invert(m, set(subset), how), subset, 'prior-query:exhaustive-6-tets', prior='abs-volume')
    for k in range(ctx.n(24, 400) * boost):
        m = G.gen_geometric(rnd, kind='tet', max_cells=2 if ctx.quick else 3)
        n = len(m['blocks']['tet'])
        subset = {i for i in range(n) if rnd.random() < rnd.choice([.1, .5, .9])}
        positive_case(ctx, invert(m, subset, SWAPS[-1]), subset, 'prior-query:random-subset',
                      prior='abs-volume' if k % 3 else 'signed-volume')
    ctx.extra['p_tie'] = {'tolerance_centroid': U.TOL_CENTROID, 'tolerance_linear': U.TOL_LINEAR, 'scale': 'max|coordinate|^3'}


def replay(ctx, obj, record=False):
    inp = obj['input']
    m = G.from_json(inp['mesh'])
    n0, d0 = len(ctx.failures), len(ctx.disagreements)
    op = inp.get('op')
    if op == 'to_polyhedron':
        poly_case(ctx, m, {1: [0, 0], 0: [0, 0]})
    elif op == 'resolve_degeneracy':
        degen_case(ctx, m, {int(k): v for k, v in inp.get('patterns', {}).items()})
    elif op == 'make_elements_positive':
        positive_case(ctx, m, set(inp.get('inverted', [])), 'replay', prior=inp.get('prior_query'))
    else:
        return {'fails': False, 'error': 'unknown op'}
    return {'op': op, 'describe': G.describe(m),
            'failures': [{'signature': f['signature'], 'what': f['what'], 'observed': f['observed']} for f in ctx.failures[n0:]],
            'model_disagreements': [{'what': d['what'], 'impl': d['impl'], 'model': d['model']} for d in ctx.disagreements[d0:]],
            'fails': len(ctx.failures) > n0}
