"""C20 - mesh compression conserves volume, validity and transferred totals (DESIGN.md section 4, C20).

What is *proved* (Lean, all inputs): the cell checker, the cancellation / edge-merge / reindex step lemmas and the
transfer algebra.  What this harness does on every run:

* VALIDATION (not proof): real `MeshCompressor.compress` on polyhedral meshes made from tet / hex bricks (affine
  images), sweeps of elem_num / cos_thresh / dist_thresh; **every output cell goes through the verified checker**
  `Femio.C20.checkCell` in the driver (theorem `C20_checker_sound`), and through an independent Python statement of the
  same clause (the oracle).
* Tie D for the modelled steps: `merge_elements` (face cancellation) vs `mergeCells` per merged group; `reindex`
  (arguments captured by wrapping the module-level function) vs `reindex`; `remove_one_edge_from_polyhedron` vs
  `removeEdge`; the four transfer functions vs `transferMean` / `transferSum` applied to the *real* conversion
  matrices (the matrix construction itself - BFS over cells, counting - is observed, not modelled).
* Oracle: listed nodes = nodes used by the faces, numbered 1..K; total volume (exact rational fan volume of the output
  faces at the output coordinates) = original total when no vertices were merged; 'mean' keeps constants and 'sum'
  keeps the grand total, both directions, nodal and elemental.
* Streams: 'generated' (bricks with arbitrary node ids / storage orders x parameter sweep, single transfers), 'history'
  (ONE MeshCompressor object used for a sequence of transfers with varying knn - A, B, A / repetitions / free sequences -
  laws and model correspondence after every call; the conversion matrices are lru_cached per (object, knn)),
  'order-sweep' (one geometry and id set under every storage order class of the node table, dist_thresh = 0), 'merge',
  'sharp-edge' (c20_shapes: bodies with knife / blunt / reflex boundary edges - prisms over kite, triangle, wedge, cut
  square, L, star, parallelogram cross-sections, cut Freudenthal bricks - hex and tet, full sweep of cos_thresh incl.
  negative values and values just above / below the cosines of the body's own edges, dist_thresh = 0), 'thin-layer'
  (vertices ARE merged, knn in {2, 3, 5}, duplicate representatives in the neighbour lists; all transfers).
* A volume change without vertex merge is classified exactly: `classify_volume_change` says whether the output kept
  the input coordinates of the nodes it kept, and `c20_shapes.merge_account` replays the run with femio's own kernels and
  computes, for every edge removal that was APPLIED, the exact rational cosine of the fan normals of the two faces the
  decision was taken on (tied to `Femio.C20.admits`, theorem C20_admit_iff_cos): only a run all of whose non-coplanar
  merges have cos >= cos_thresh gets the known signature `...:faces-merged-across-an-angle`; a merge below the threshold
  (e.g. the negative cosine of a knife edge) keeps the suffix-free signature, which is not known.
* The total volume is also taken with femio's own polyhedron kernel (`calculate_element_volumes(mode='linear')`) on the
  input and on every output without vertex merge and compared with the exact fan volume (relative 1e-9).
* Round 5: the FIELD is a generator dimension of every transfer (dtype incl. integer counts / unsigned / bool / float16 / float32,
  Fortran / strided / read-only layout, rank 1), the source field is compared with a snapshot afterwards, and every result goes
  back through the opposite function ("... and back"); stream 'chain-collapse' (dist_thresh = 1.25 .. 3 x the local edge length:
  chains of nodes collapse while part of the mesh survives); a listed node without finite coordinates is reported.
* Every compress() is first tried in a forked child under a memory and a time cap (`dry_run`): a kernel that no longer
  ends is reported as `compress:runaway` with its input instead of taking the whole check down.
"""
import contextlib
import io
import os
import select
import signal
import time
from fractions import Fraction as F

import numpy as np

from . import common as C
from . import meshgen as MG

PROP = 'C20'
LEAN_MODULES = ['Femio.Props.C20', 'Femio.Props.C20Pipeline', 'Femio.Props.C20Admit', 'Femio.Props.C20Round5']
THEOREMS = []          # filled from the audit list below
PARTIAL = [
    'the CHOICE of clusters / edges / vertex pairs made by the heuristics of compress() (randomised face hashing, float '
    'thresholds, greedy orders) is universally quantified (Op of Props/C20Pipeline.lean), not modelled; the spec model '
    'removeOneEdge is tied to the real function (and to the literal transcription) by differential test on every traced '
    'call, not by a refinement proof; elem_conv and recalc_node_pos are not modelled',
    'flux (volume) conservation C20_pipeline_flux is for exact coplanarity only and excludes vertex merging: float '
    'cos_thresh merges of nearly coplanar faces remain the known finding volume-angle-merge',
    'the construction of the conversion matrices (calculate_nodal_knn / calculate_elemental_knn) is observed, not '
    'modelled: C20_rows_cols_nonempty is about the matrix assembled from a given neighbour table',
    'the admission decision of remove_edges is modelled for ONE pair of faces (Model/CompressAdmit.lean: fan normal, exact '
    'cos >= T; theorems C20_admit_iff_cos, C20_fan_normal_rotate) and tied to the harness on every applied merge of every run '
    'whose volume changed; WHICH faces are current when a round of remove_edges decides (normals are taken once per round) is '
    'replayed with femio\'s own kernels (c20_shapes.merge_account), not modelled',
]
from . import c20_steps as _steps  # noqa: E402
from . import c20_shapes as _shapes  # noqa: E402
RULE = ('meshes: tet (6 Kuhn tets per cell) and hex bricks of 1..3 cells per axis under a random rational affine map with '
        'positive determinant, node ids dense/sparse/large in ascending/descending/shuffled storage order; parameters: '
        'elem_num in {1,2,3,5,8,n,2n} x cos_thresh in {1-1e-9, 0.999, 0.99, 0.9, 0.5, 0, -1} x dist_thresh in {0, 0.1, 0.5, 2} '
        'x edge scale; knn in {1,2,3,5}; a case is non-trivial when the output has fewer cells than the input; '
        'distinct = distinct (mesh, parameters); histories: knn sequences of length 3..6 over {1,2,3,5} on one compressor '
        '(A,B,A / A,A,B,A,B / A,B,C,A,C,B / free), all 8 transfers (nodal|elemental x compress|decompress x mean|sum) after '
        'every element of the sequence, non-trivial when the sequence returns to an earlier knn and the matrices differ; '
        'order-sweep: asc/desc/shuf/midshuf/swap2 storage of one mesh, dist_thresh=0, cos_thresh in {1-1e-9, 0.999}; '
        'shallow-angle: hex / tet bricks with anisotropic dyadic cell sizes whose top surface carries a roof ridge / valley '
        '(tet: or a single raised node) of slope 2^-13 .. 2^-10 (faces exactly planar, meeting at 1 - cos = 3e-8 .. 2e-6), '
        'elem_num in {1,2,3}, cos_thresh in {1, 1-1e-9}, dist_thresh = 0: no angle merge is admitted, volume exactly conserved; '
        'sharp-edge: prisms (1..3 layers, integer heights incl. thin slabs) over kite / isosceles / right-triangle / cut-square / L / '
        '4-star / parallelogram cross-sections with apex angles 2 atan(p/q) = 10.4 .. 176.4 degrees, each a conforming union of convex '
        'quadrilaterals refined 1..3 times, as hex or as tet (every hex pulled from its smallest node id), and Freudenthal tet bricks '
        'cut by 1..3 planes x_i - x_j >= k with anisotropic integer cell sizes (refined tets, wedges, cut cubes); integer coordinates '
        'under an integer affine map (scaled rotations, in-plane shears, oblique extrusions, random), node ids 1..n in a random numbering '
        'under asc/desc/shuf/midshuf/swap2 storage; elem_num in {1,2,3,4,8,n/2,n}; cos_thresh from {1-1e-9, .999, .99, .95, .9, .7, .5, '
        '.2, 0, -.2, -.5, -.9, -.97, -.999, -1} or c +- {1e-6, 1e-3, 2e-2} / -c +- ... for the cosine c of one of the body\'s own '
        'boundary edges; dist_thresh = 0; the evidence counts the cases whose threshold lies between c and |c| of a knife edge '
        '(sign-sensitive) and within 1e-3 of a body cosine; thin-layer: hex / tet bricks with one or two layers of thickness 1/4 or '
        '1/8 along one axis, dist_thresh in {3/8, 1/2, 3/4}, elem_num mostly >= the cell count, knn in {2,3,5}: vertices merged and '
        'neighbour lists with a duplicate representative are counted; all 8 transfers, every third case as a knn history A,B,A; '
        'chain-collapse: dist_thresh = 1.25 .. 3 x the local edge length h - graded bricks with a run of 3..5 fine layers (h = 1/4, 1/8) '
        'next to unit layers, anisotropic bricks with spacings h, 3h/2 and 1.1 .. 2 x dist_thresh (3..4 x 2..4 x 2..3 cells), bricks with '
        'one uniformly fine axis; elem_num mostly >= the cell count; the evidence counts the largest set of input nodes merged into one; '
        'all 8 transfers on each; FIELD of every transfer (all streams): dtype from {float64 x5, int64 x3, int32, float32, float16, uint8, '
        'int8, bool, one of int16/uint16/uint32/uint64}, layout from {C x3, Fortran, strided view, read-only}, rank 1 (shape (N,)) in 1 of 16; '
        'values exactly representable in the dtype (mean: one constant per column, narrow integers up to +-120 / 250 / 30000 / 60000; sum: '
        'integer counts in -20..20 / 0..40, bool 0/1), drawn from a seed stored in the case; after every transfer the source field is compared '
        'with a snapshot and the result is sent back through the opposite function (round trip: constant / total of the original field)')
ASSUMPTIONS = [
    'node indices are < 2^32 (the code packs a directed edge into one int64)',
    'face hashes (random base modulo 2^61-1) do not collide',
    'the volume of a cell with non-planar faces is taken by the fan triangulation from each face\'s first node, which is '
    'what femio\'s polyhedron volume kernel computes (checked: calculate_element_volumes(mode="linear") on the input and on every '
    'output without vertex merge agrees with the exact fan volume at relative 1e-9 of the sum of the absolute fan terms)',
    'a face merge counts as admitted by cos_thresh when the exact cosine of the fan normals of the two faces (as they were when the '
    'round of remove_edges took its decisions) is >= cos_thresh - 1e-10; the allowance covers the rounding of the code\'s float unit '
    'normals and their dot product; thresholds derived from a cosine of the body are placed >= 1e-6 away from it',
    'float results of the transfer functions are compared with the exact rational model values at relative tolerance 1e-9 (of the sum '
    'of the absolute input values); for a float32 / float16 source field at 8 machine epsilons of that dtype (a transfer may keep the '
    'dtype of the field): every generated value is exactly representable in the dtype of the field',
    'a field is handed to update_data under a fresh name: femio then stores the very array (same dtype, same memory; counted in the '
    'evidence as field:stored-as-handed-in), so dtype and layout reach the transfer functions',
    'a mean deviation is attributed to the open finding mean-narrow-dtype only when every entry equals the row sum wrapped modulo 2^bits '
    '(bool: logical or) divided by the row count (wrapped_mean; Lean transferMeanWrap / transferMeanOr); any other deviation keeps the '
    'plain signature',
    'a compress() of a generated brick (<= 162 cells) that needs more than 2 GiB of additional address space or more than '
    '150 s in the dry run is reported as compress:runaway (on the tree as delivered: < 1 s, a few MiB)',
]
TRUSTED = ['C20: np.matrix / scipy.sparse products of the transfer functions are observed through their results only']

THEOREMS = ['C20_checker_sound', 'C20_check_polyhedron_spec', 'C20_checker_set_not_multiset', 'C20_merge_closed_additive',
            'C20_merge_closed', 'C20_merge_closed_additive_nodup', 'C20_merge_closed_nodup', 'C20_edge_merge', 'C20_edge_merge_flux', 'C20_nodes_exact', 'C20_mean_constants', 'C20_mean_constants_back', 'C20_sum_total',
            'C20_sum_total_back', 'C20_sum_broadcast_counterexample', 'C20_rows_cols_nonempty']
THEOREMS = THEOREMS + list(_steps.THEOREMS)      # Props/C20Pipeline.lean
THEOREMS = THEOREMS + ['C20_admit_iff_cos', 'C20_unsigned_test_counterexample', 'C20_fan_normal_rotate', 'C20_fan_normal_rotate_k',
                       'C20_upstream_normal_counterexample', 'C20_upstream_admits_knife_edge']      # Props/C20Admit.lean
THEOREMS = THEOREMS + ['C20_sum_truncation_counterexample', 'C20_mean_wrap_eq', 'C20_mean_narrow_accumulation_counterexample',
                       'C20_merge_via_table_eq', 'C20_table_valid_after_merge', 'C20_stale_table_counterexample']      # Props/C20Round5.lean


def quiet(f, *a, **k):
    with contextlib.redirect_stdout(io.StringIO()), contextlib.redirect_stderr(io.StringIO()):
        return f(*a, **k)


# ---------------------------------------------------------------- plain-Python statements of the clauses (oracle)

def parse_flat(flat):
    flat = [int(v) for v in flat]
    m, L, faces = flat[0], 1, []
    for _ in range(m):
        k = flat[L]
        faces.append(flat[L + 1:L + 1 + k])
        L += 1 + k
    return faces


def cell_ok(faces):
    """the property's clause: every face edge matched by the reverse edge in the same cell, >= 3 distinct nodes"""
    edges = set()
    for f in faces:
        if len(f) < 3:
            return 'face-with-fewer-than-3-nodes'
        if len(set(f)) != len(f):
            return 'repeated-node-in-face'
        edges |= {(f[i - 1], f[i]) for i in range(len(f))}
    if any((b, a) not in edges for a, b in edges):
        return 'edge-without-reverse'
    return None


def fan_vol6(faces, pos):
    """6 x volume by femio's polyhedron kernel, exact"""
    v = F(0)
    for f in faces:
        a = pos[f[0]]
        for i in range(2, len(f)):
            v += MG.det3(a, pos[f[i - 1]], pos[f[i]])
    return v


def fan_abs6(cells, pos):
    """natural scale of the fan volume: sum of the absolute values of its terms (6 x)"""
    return sum(abs(MG.det3(pos[f[0]], pos[f[i - 1]], pos[f[i]])) for c in cells for f in parse_flat(c) for i in range(2, len(f))) or F(1)


def face_normal(f, pos):
    """exact (unnormalised) normal of a face: sum of the fan cross products"""
    P = [pos[v] for v in f]
    n = [F(0)] * 3
    for i in range(2, len(P)):
        u, w = MG.sub(P[i - 1], P[0]), MG.sub(P[i], P[0])
        n = [n[0] + u[1] * w[2] - u[2] * w[1], n[1] + u[2] * w[0] - u[0] * w[2], n[2] + u[0] * w[1] - u[1] * w[0]]
    return n


def group_boundary(member_cells):
    """faces of a group of input cells after cancellation of a face against its reverse (what merge_elements keeps)"""
    left = {}
    for flat in member_cells:
        for f in parse_flat(flat):
            k, r = tuple(rot_min(f)), tuple(rot_min(f[::-1]))
            if left.get(r, 0) > 0:
                left[r] -= 1
            else:
                left[k] = left.get(k, 0) + 1
    return [list(k) for k, c in left.items() for _ in range(c)]


def admits_angle_merge(groups, pos, cos_thresh, tol=1e-10):
    """groups: [(flat face data of the member cells, cancel shared faces?)].  NECESSARY condition for `remove_edges` to merge two faces that are not coplanar: in some output group two boundary
    faces of the input that share an edge (a->b in one, b->a in the other) lie in non-parallel planes and the cosine of
    their normals reaches the threshold.  Stated on the exact input geometry; |cos| because the code's normal of a
    non-convex union of coplanar faces may come out with either sign; before the first such merge every face of the
    pipeline is a union of coplanar input faces, so its normal is +- the exact one.
    The comparison is exact (rationals): cos^2 = dot^2 / (|x|^2 |y|^2) against (cos_thresh - tol)^2; `tol` only covers the
    rounding of the code's float unit normals and their dot product (a few ulp, amplified by at most the cancellation in
    the normal of a non-convex union), NOT a modelling allowance: faces that meet at a shallow but non-zero angle
    (1 - cos ~ 1e-8 … 1e-6) are not admitted by cos_thresh = 1 or 1 - 1e-9."""
    T = F(cos_thresh) - F(tol)
    for members, cancel in groups:
        faces = group_boundary(members) if cancel else [f for flat in members for f in parse_flat(flat)]
        normals = [face_normal(f, pos) for f in faces]
        by_edge = {}
        for k, f in enumerate(faces):
            for i in range(len(f)):
                by_edge.setdefault((f[i - 1], f[i]), []).append(k)
        for (a, b), ks in by_edge.items():
            for k in ks:
                for j in by_edge.get((b, a), []):
                    if j <= k:
                        continue
                    x, y = normals[k], normals[j]
                    cr = (x[1] * y[2] - x[2] * y[1], x[2] * y[0] - x[0] * y[2], x[0] * y[1] - x[1] * y[0])
                    if not any(cr):
                        continue
                    dot = sum(u * v for u, v in zip(x, y))
                    if T <= 0 or dot * dot >= T * T * sum(v * v for v in x) * sum(v * v for v in y):
                        return True
    return False


def nonplanar(f, pos):
    """exact: the nodes of the face do not lie in one plane"""
    P = [pos[v] for v in f]
    for i in range(1, len(P)):
        for j in range(i + 1, len(P)):
            u, w = MG.sub(P[i], P[0]), MG.sub(P[j], P[0])
            n = (u[1] * w[2] - u[2] * w[1], u[2] * w[0] - u[0] * w[2], u[0] * w[1] - u[1] * w[0])
            if any(n):
                return any(sum(a * b for a, b in zip(n, MG.sub(q, P[0]))) != 0 for q in P)
    return False


def enc_flat(flat):
    return C.enc_list([int(v) for v in flat])


def rot_min(f):
    i = f.index(min(f))
    return f[i:] + f[:i]


# ---------------------------------------------------------------- generators

COS = [1 - 1e-9, 0.999, 0.99, 0.9, 0.5, 0.0, -1.0]
DIST = [0.0, 0.0, 0.5, 1.01, 1.5, 3.0]      # x the shortest node distance inside an element


def gen_case(rnd, i):
    kind = 'tet' if i % 2 == 0 else 'hex'
    m = MG.gen_geometric(rnd, kind=kind, max_cells=3 if kind == 'hex' or i % 4 else 2, jitter=False, voids=False,
                         unref=False, affine=(i % 5 != 4))
    n = sum(len(b) for b in m['blocks'].values())
    pos = dict(m['nodes'])
    emin = min(sum(float(a - b) ** 2 for a, b in zip(pos[c[i]], pos[c[j]])) ** .5
               for b in m['blocks'].values() for _, c in b for i in range(len(c)) for j in range(i))
    params = {'elem_num': rnd.choice([1, 2, 3, 5, 8, n, 2 * n]), 'cos_thresh': COS[i % len(COS)] if i % 3 else rnd.choice(COS),
              'dist_thresh': round(rnd.choice(DIST) * emin, 6), 'knn': rnd.choice([1, 2, 3, 5])}
    return m, params


def gen_history_case(rnd, i):
    """compressions for the transfer histories: parameters under which a brick of >= 2 cells loses nodes"""
    kind = 'hex' if i % 2 == 0 else 'tet'
    m = MG.gen_geometric(rnd, kind=kind, max_cells=3, jitter=False, voids=False, unref=False, affine=(i % 3 != 2))
    pos = dict(m['nodes'])
    emin = min(sum(float(a - b) ** 2 for a, b in zip(pos[c[i]], pos[c[j]])) ** .5
               for b in m['blocks'].values() for _, c in b for i in range(len(c)) for j in range(i))
    params = {'elem_num': rnd.choice([1, 2, 3]), 'cos_thresh': rnd.choice([0.999, 0.99, 0.9]),
              'dist_thresh': round(rnd.choice([0.0, 0.0, 0.0, 0.5, 1.01]) * emin, 6), 'knn': rnd.choice([1, 2, 3, 5])}
    return m, params


def shallow_case(rnd, i):
    """stream 'shallow-angle': hex / tet brick (anisotropic cell sizes) whose top surface carries a very shallow roof ridge
    or valley along x = x0 or y = y0 (tet: also a single raised / lowered top node): every input face stays exactly planar
    (dyadic coordinates), the slopes are eps = 2^-13 .. 2^-10 (1e-4 .. 1e-3 of the cell size), so the faces at the ridge
    meet at a non-zero angle with 1 - cos ~ 2 eps^2 = 3e-8 .. 2e-6.  cos_thresh in {1, 1 - 1e-9} admits no angle merge on
    this geometry and dist_thresh = 0 merges no vertex: the volume must be conserved exactly."""
    kind = 'hex' if i % 2 == 0 else 'tet'
    nx, ny, nz = rnd.choice([(2, 1, 1), (2, 2, 1), (3, 2, 1), (2, 2, 2), (3, 1, 1), (2, 3, 1)] + ([(4, 2, 2)] if kind == 'hex' else []))
    m = brick_mesh(kind, nx, ny, nz)
    eps = F(1, 2 ** [13, 12, 11, 10][(i // 2) % 4]) * rnd.choice([1, 1, -1])
    size = [F(rnd.choice([1, 1, 2, 4]), rnd.choice([1, 2, 4])) for _ in range(3)]
    shape = rnd.choice(['ridge-x', 'ridge-x', 'ridge-y', 'tip'] if kind == 'tet' else ['ridge-x', 'ridge-x', 'ridge-y'])
    if shape == 'ridge-y' and ny < 2:
        shape = 'ridge-x'
    x0, y0 = rnd.randint(1, nx - 1), rnd.randint(1, ny - 1) if ny > 1 else rnd.randint(0, 1)

    def lifted(x, y, z):
        on = z == nz and {'ridge-x': x == x0, 'ridge-y': y == y0, 'tip': x == x0 and y == y0}[shape]
        # height = eps x the horizontal cell size across the ridge: slope eps on both sides
        return z * size[2] + (eps * (size[1] if shape == 'ridge-y' else size[0]) if on else 0)
    m['nodes'] = [(n, (x * size[0], y * size[1], lifted(x, y, z))) for n, (x, y, z) in m['nodes']]
    pos = dict(m['nodes'])
    for e, c in m['blocks'][kind]:
        if kind == 'tet' and MG.signed('tet', [pos[n] for n in c]) < 0:
            c[1], c[2] = c[2], c[1]
        assert MG.signed(kind, [pos[n] for n in c]) > 0
    m = reorder_nodes(rnd, m, rnd.choice(['asc', 'asc', 'shuf', 'desc']))
    m['shallow'] = f'{shape}:slope=2^-{eps.denominator.bit_length() - 1}' + (':valley' if eps < 0 else '')
    params = {'elem_num': rnd.choice([1, 1, 2, 3]), 'cos_thresh': [1.0, 1 - 1e-9][(i // 8 + i) % 2], 'dist_thresh': 0.0, 'knn': 1}
    return m, params



def chain_case(rnd, i):
    """stream 'chain-collapse': dist_thresh clearly above the local edge length (t = 1.25 .. 3 x the spacing h), so that a
    vertex that has absorbed its neighbour is still within reach of the next one and whole chains of nodes collapse within few
    sweeps of merge_vertices - while part of the mesh survives:
    'fine-run'    graded brick, along one axis a run of 3..5 fine layers (h = 1/4, 1/8) between / next to unit layers, the other
                  axes unit or double spacing, dist_thresh = t x h < 1;
    'anisotropic' the bricks of a typical parameter study: spacings h, 3h/2 and s3 = 1.1 .. 2 x dist_thresh, 3..4 x 2..4 x 2..3
                  cells, dist_thresh = t x h reaches across one or both fine axes;
    'uniform-axis' every layer of one axis fine (3..6 layers), the other axes >= 4 h.
    elem_num mostly keeps the cells small, so that the short edges survive the cell merge."""
    kind = 'hex' if i % 2 == 0 else 'tet'
    style = ['fine-run', 'anisotropic', 'fine-run', 'anisotropic', 'fine-run', 'uniform-axis'][i // 2 % 6]
    ax = rnd.randrange(3)
    o1, o2 = [a for a in range(3) if a != ax]
    t = F(rnd.choice([5, 6, 8, 10, 12]), 4)
    grids = [None, None, None]
    if style == 'fine-run':
        h = F(1, rnd.choice([4, 8]))
        run = rnd.randint(3, 5) if kind == 'hex' else 3
        lay = {0: [F(1)] + [h] * run, 1: [h] * run + [F(1)], 2: [F(1)] + [h] * run + [F(1)]}[rnd.randrange(3)]
        grids[ax] = lay
        for o in (o1, o2):
            grids[o] = [F(rnd.choice([1, 2]))] * rnd.randint(1, 2)
        if kind == 'tet':
            grids[o2] = grids[o2][:1]
    elif style == 'anisotropic':
        h = F(1, rnd.choice([2, 4]))
        t = F(rnd.choice([6, 7, 8, 10]), 4)
        grids[ax] = [h] * (rnd.randint(3, 4) if kind == 'hex' else 3)
        grids[o1] = [h * F(3, 2)] * (rnd.randint(2, 4) if kind == 'hex' else 2)
        grids[o2] = [t * h * F(rnd.choice([11, 15, 20]), 10)] * (rnd.randint(2, 3) if kind == 'hex' else 2)
    else:
        h = F(1, rnd.choice([2, 4, 8]))
        grids[ax] = [h] * (rnd.randint(3, 6) if kind == 'hex' else rnd.randint(3, 4))
        for o in (o1, o2):
            grids[o] = [h * rnd.choice([4, 6, 8])] * rnd.randint(1, 2)
    n = [len(g) for g in grids]
    coord = [[sum(g[:k], F(0)) for k in range(len(g) + 1)] for g in grids]
    m = brick_mesh(kind, *n)
    m['nodes'] = [(k, tuple(coord[a][int(p[a])] for a in range(3))) for k, p in m['nodes']]
    pos = dict(m['nodes'])
    for e, c in m['blocks'][kind]:
        if kind == 'tet' and MG.signed('tet', [pos[v] for v in c]) < 0:
            c[1], c[2] = c[2], c[1]
        assert MG.signed(kind, [pos[v] for v in c]) > 0
    m = reorder_nodes(rnd, m, rnd.choice(['asc', 'asc', 'shuf', 'desc', 'midshuf']))
    m['shape'] = f'chain:{style}:cells={n}:h={h}:dist={t}xh'
    nc = len(m['blocks'][kind])
    params = {'elem_num': rnd.choice([1000, 1000, 1000, nc, max(2, nc // 2), 10]), 'cos_thresh': rnd.choice([0.99, 0.99, 0.9, 0.8]),
              'dist_thresh': float(t * h), 'knn': rnd.choice([1, 2, 3])}
    return m, params


# ---------------------------------------------------------------- guard against a compression that does not end

MEM_EXTRA = 2 << 30          # address space a dry run may add to the checking process
TIME_CAP = [150.0]           # seconds; lowered after two dry runs that hit it


_WARM = []


def brick_mesh(kind, nx, ny, nz):
    """unit brick, node ids 1..n stored ascending (the numbering of femio.generate_brick)"""
    def idx(x, y, z):
        return x + (nx + 1) * (y + (ny + 1) * z)
    nodes = [(idx(x, y, z) + 1, (F(x), F(y), F(z))) for z in range(nz + 1) for y in range(ny + 1) for x in range(nx + 1)]
    el = []
    for z in range(nz):
        for y in range(ny):
            for x in range(nx):
                c = [idx(x, y, z), idx(x + 1, y, z), idx(x + 1, y + 1, z), idx(x, y + 1, z),
                     idx(x, y, z + 1), idx(x + 1, y, z + 1), idx(x + 1, y + 1, z + 1), idx(x, y + 1, z + 1)]
                el += [[c[i] + 1 for i in t] for t in MG.KUHN] if kind == 'tet' else [[v + 1 for v in c]]
    return {'kind': kind, 'order': 'asc', 'id_style': 'dense', 'nodes': nodes,
            'blocks': {kind: [(e + 1, c) for e, c in enumerate(el)]}}


def warm_up():
    """compile the kernels of compress() in the checking process itself before the first fork (a child's compilation
    is lost with the child)"""
    if _WARM:
        return
    _WARM.append(1)
    import femio.mesh_compressor as MC
    poly = quiet(MG.to_femio(brick_mesh('hex', 2, 1, 1)).to_polyhedron)
    quiet(MC.MeshCompressor(fem_data=poly).compress, elem_num=1, cos_thresh=0.999, dist_thresh=0.0)


DRY_STATS = {'n': 0, 'max_s': 0.0, 'timeouts': 0}


def dry_run(poly, params, confirmed=False):
    """`compress` on a throw-away compressor in a forked child (the compiled kernels and the numba RNG state are
    inherited, so the child does exactly what the parent is about to do) under an address-space cap and a wall-clock
    cap.  None: it ends, normally or with an ordinary exception (the parent then runs it for real).  Otherwise a
    description: the kernels are nopython loops, a loop that never ends cannot be interrupted from Python and one that
    keeps appending gets the whole check killed by the kernel before any verdict is printed."""
    import femio.mesh_compressor as MC
    if not hasattr(os, 'fork'):
        return None
    warm_up()
    import resource
    cap = TIME_CAP[0]
    r, w = os.pipe()
    t0 = time.time()
    pid = os.fork()
    if pid == 0:
        code = b'x'
        try:
            os.close(r)
            rss0 = resource.getrusage(resource.RUSAGE_SELF).ru_maxrss
            try:
                vm = int(open('/proc/self/statm').read().split()[0]) * resource.getpagesize()
                soft, hard = resource.getrlimit(resource.RLIMIT_AS)
                lim = vm + MEM_EXTRA
                if hard != resource.RLIM_INFINITY:
                    lim = min(lim, hard)
                resource.setrlimit(resource.RLIMIT_AS, (lim, hard))
            except Exception:  # noqa
                pass
            try:
                quiet(MC.MeshCompressor(fem_data=poly).compress, elem_num=params['elem_num'], cos_thresh=params['cos_thresh'],
                      dist_thresh=params['dist_thresh'])
                code = b'o'
            except MemoryError:
                code = b'm'
            except BaseException:  # noqa   (an allocation failure may surface as another exception type)
                grown = (resource.getrusage(resource.RUSAGE_SELF).ru_maxrss - rss0) * 1024
                code = b'm' if grown > MEM_EXTRA // 2 else b'e'
            os.write(w, code)
        finally:
            os._exit(0)
    os.close(w)
    try:
        ready, _, _ = select.select([r], [], [], cap)
        got = os.read(r, 1) if ready else None
    finally:
        os.close(r)
    if got is None:
        try:
            os.kill(pid, signal.SIGKILL)
        except OSError:
            pass
    _, status = os.waitpid(pid, 0)
    dt = time.time() - t0
    DRY_STATS['n'] += 1
    if got in (b'o', b'e'):
        DRY_STATS['max_s'] = max(DRY_STATS['max_s'], dt)
    if got is None and not confirmed and not DRY_STATS['timeouts']:
        # the first time a dry run hits the wall-clock cap it is repeated in a fresh child before anything is reported
        return dry_run(poly, params, confirmed=True)
    if got is None:
        DRY_STATS['timeouts'] += 1
        if DRY_STATS['timeouts'] >= 2:
            TIME_CAP[0] = 30.0
    if got in (b'o', b'e'):
        return None
    if got == b'm':
        return f'needs more than {MEM_EXTRA >> 20} MiB of additional memory (MemoryError after {dt:.1f} s under that cap)'
    if got is None:
        return f'does not end within {cap:.0f} s'
    return f'the process running it died (wait status {status}) after {dt:.1f} s under a cap of {MEM_EXTRA >> 20} MiB of additional memory'


# ---------------------------------------------------------------- one compression

class Hooks:
    """capture the arguments of the module-level `reindex` call made by compress()"""

    def __init__(self):
        import femio.mesh_compressor as MC
        self.MC = MC
        self.calls = []

    def __enter__(self):
        self.orig = self.MC.reindex

        def wrapped(csr, node_conv):
            before = (csr[0].copy(), csr[1].copy(), node_conv.copy())
            r = self.orig(csr, node_conv)
            self.calls.append((before, (csr[0].copy(), csr[1].copy(), node_conv.copy())))
            return r
        self.MC.reindex = wrapped
        return self

    def __exit__(self, *a):
        self.MC.reindex = self.orig


def cells_of(csr):
    indptr, dat = csr
    return [[int(v) for v in dat[indptr[p]:indptr[p + 1]]] for p in range(len(indptr) - 1)]


def ask(ctx, line):
    rep = ctx.driver.ask(line)
    t = C.Toks(rep)
    if t.tok() != 'ok':
        raise RuntimeError('driver: ' + rep[:200] + ' <- ' + line[:200])
    return t


def read_faces(t):
    return t.lst(lambda: t.lst(t.nat))


KNOWN_SUFFIX = ':faces-merged-across-an-angle'


def classify_volume_change(ctx, mc, poly, params, real_final, raw_cells, out_cells, pos0, pos1, conv1):
    """Why did the volume change although no vertex was merged?  -> (explanation, suffix of the failure signature).
    Known shape (findings/C20-volume-angle-merge.md): the output keeps the input coordinates of the nodes it keeps and the
    faces that were merged across an angle are faces the threshold ADMITS: for every edge removal the run applied
    (`c20_shapes.merge_account`: staged replay with femio's own kernels) the exact rational cosine of the normals of the two
    faces the decision was taken on is >= cos_thresh (minus the rounding allowance of the code's float test).  A run that
    merged two faces whose cosine is below the threshold (e.g. the negative cosine of a knife edge) is NOT explained by the
    known finding, whatever else it merged."""
    cos_thresh = params['cos_thresh']
    K = len(pos1)
    back = {}
    for v, k in enumerate(conv1):
        if int(k) >= 0:
            back.setdefault(int(k), []).append(v)
    if sorted(back) == list(range(K)) and all(len(v) == 1 for v in back.values()):
        moved = [k for k in range(K) if pos1[k] != pos0[back[k][0]]]
        if moved:
            vol_back = sum(fan_vol6(parse_flat(c), [pos0[back[k][0]] for k in range(K)]) for c in out_cells)
            k = moved[0]
            return (f'coordinates-not-kept: {len(moved)} of the {K} output nodes do not have the coordinates of the input node they '
                    f'stand for (output node {k} = input node at position {back[k][0]}: {[float(x) for x in pos1[k]]} vs '
                    f'{[float(x) for x in pos0[back[k][0]]]}); with the input coordinates the same faces enclose {float(vol_back / 6):.12g}',
                    '')
    try:
        acc = _shapes.merge_account(poly, params, real_final, ctx)
    except RuntimeError:        # the model driver answered with an error: not something to swallow
        raise
    except Exception:  # noqa   (the account is a diagnosis; the static classification below still applies)
        acc = None
    ctx.count('volume-change:account-of-the-applied-merges:' + ('available' if acc is not None else 'NOT-available(static classification)'))
    if acc is not None:
        plain = [r for r in acc if r[3] == 'NOT-admitted']
        flip = [r for r in acc if r[3].startswith('NOT-admitted(')]
        adm = [r for r in acc if r[3].startswith('admitted')]
        if plain or flip:
            st, a, b, cls, c, f1, f2 = (plain or flip)[0]
            return (f'merge-not-admitted: {len(plain) + len(flip)} of the {len(acc)} edge removals of the run merged two faces that cos_thresh '
                    f'does not admit (first: round {st + 1} of remove_edges, edge {a}-{b} between the faces {f1} and {f2} (node positions in '
                    f'the polyhedral input), cosine of their normals {c:.9f} < cos_thresh = {cos_thresh}) [{cls}]; '
                    f'{len(adm)} further removals crossed an admitted angle',
                    '' if plain else ':normal-of-non-convex-face')
        if adm:
            return (f'angle-merge-admitted: {len(adm)} of the {len(acc)} edge removals of the run merged two faces that are not coplanar, '
                    f'all with cos >= cos_thresh (smallest {min(r[4] for r in adm):.9f})', KNOWN_SUFFIX)
        return (f'only-coplanar-merges: all {len(acc)} edge removals of the run merged two coplanar planar faces, which cannot change '
                'the volume', '')
    conv = [int(e) for e in mc.elem_conv]
    if len(conv) == len(raw_cells) and all(-1 <= e < len(out_cells) for e in conv):
        groups = [([raw_cells[p] for p in range(len(conv)) if conv[p] == g], True) for g in range(len(out_cells))]
        groups.append(([raw_cells[p] for p in range(len(conv)) if conv[p] == -1], False))   # vanished cells: group unknown
    else:
        groups = [(raw_cells, False)]
    if admits_angle_merge(groups, pos0, cos_thresh):
        return ('angle-merge-admitted(static: the staged replay was not usable): the threshold admits merging two adjacent faces of an '
                'output group that are not coplanar'), KNOWN_SUFFIX
    return ('no-angle-merge-possible: in no output group do two adjacent boundary faces in different planes reach cos_thresh, '
            'so only coplanar faces can have been merged'), ''


def compress_case(ctx, m, params, label='generated'):
    import femio.mesh_compressor as MC
    fd = MG.to_femio(m)
    poly = quiet(fd.to_polyhedron)
    case = {'kind': 'compress', 'mesh': MG.to_json(m), 'params': params}
    raw_cells = cells_of(poly.face_data_csr())
    pos0 = [tuple(F(float(v)) for v in p) for p in poly.nodes.data]
    vol0 = sum(fan_vol6(parse_flat(c), pos0) for c in raw_cells)
    mc = MC.MeshCompressor(fem_data=poly)
    key = ('compress', MG.enc_mesh(m), tuple(sorted(params.items())))
    runaway = dry_run(poly, params)
    if runaway:
        # a valid brick must compress; the same input takes well under a second and a few MiB on the tree as delivered
        ctx.fail('compress:runaway', f'compress({params}) on a mesh of {len(raw_cells)} cells / {len(pos0)} nodes ({m["kind"]}, node ids '
                 f'{m["order"]}) {runaway}: no compressed mesh is produced', case, None)
        ctx.count('compress:runaway')
        ctx.case(key, nontrivial=True)
        return None
    with Hooks() as hk:
        try:
            ok = quiet(mc.compress, elem_num=params['elem_num'], cos_thresh=params['cos_thresh'], dist_thresh=params['dist_thresh'])
        except Exception as e:  # noqa   (a valid brick must compress: no compressed mesh at all is reported, with the input)
            ctx.fail('compress:raises', f'compress({params}) raised {type(e).__name__}: {str(e)[:160]}', case, None)
            ctx.case(key, nontrivial=True)
            return None
    ctx.count('compress:' + ('ok' if ok else 'compressed-to-nothing'))
    if not ok:
        ctx.case(key, nontrivial=False)
        return None
    out = mc.output_fem_data
    out_cells = [[int(v) for v in row] for row in out.elemental_data['face']['polyhedron'].data]
    K = len(out.nodes.data)
    # ---- closed cells (validation through the verified checker + independent oracle)
    used = set()
    for ci, flat in enumerate(out_cells):
        faces = parse_flat(flat)
        used |= {v for f in faces for v in f}
        bad = cell_ok(faces)
        if bad:
            ctx.fail('cell:' + bad, f'output cell {ci} is not a closed polyhedral cell ({bad}): faces {faces[:6]}',
                     {**case, 'cell_index': ci}, flat)
        if ctx.driver is not None:
            t = ask(ctx, 'c20.check_cell ' + enc_flat(flat))
            parsed, chk, cell, bal = t.nat(), t.nat(), t.nat(), t.nat()
            nodes = t.lst(t.nat)
            ctx.count('verified-checker:' + ('accepted' if cell else 'REJECTED'))
            if not bal:
                ctx.count('cell:edge-multiset-not-balanced(set-closed)')
            if bool(cell) != (bad is None) or not parsed:
                ctx.disagree('checkCell vs the clause evaluated in Python', {**case, 'cell_index': ci}, bad, [parsed, chk, cell])
            listed = sorted(int(v) - 1 for v in out.elements.data[ci])
            if nodes != listed:
                ctx.disagree('cell node list (collect_vertex)', {**case, 'cell_index': ci}, listed, nodes)
    # ---- exactly the listed nodes
    ids = [int(i) for i in out.nodes.ids]
    if ids != list(range(1, K + 1)) or used != set(range(K)):
        ctx.fail('nodes:not-exactly-the-used-nodes', f'{K} nodes listed with ids {ids[:8]}..., faces use {len(used)} distinct indices '
                 f'(unused: {sorted(set(range(K)) - used)[:8]}, out of range: {sorted(used - set(range(K)))[:8]})', case, None)
    coords = np.asarray(out.nodes.data, dtype=np.float64)
    if coords.shape != (K, 3) or not np.all(np.isfinite(coords)):
        nf = [k for k in range(K) if coords.ndim != 2 or not np.all(np.isfinite(coords[k]))]
        ctx.fail('nodes:listed-node-without-coordinates', f'{len(nf)} of the {K} listed nodes have no finite coordinates (first: node {nf[0] + 1 if nf else "?"} = '
                 f'{coords[nf[0]].tolist() if nf and coords.ndim == 2 else None}; the cells using them are not polyhedra; dist_thresh={params["dist_thresh"]}): '
                 f'nodes {[k + 1 for k in nf[:10]]}', case, None)
    for ci, flat in enumerate(out_cells):
        want = sorted({v for f in parse_flat(flat) for v in f})
        if sorted(int(v) - 1 for v in out.elements.data[ci]) != want:
            ctx.fail('nodes:element-node-list', f'cell {ci}: element row {list(out.elements.data[ci])} != nodes of its faces {want}', case, None)
            break
    # ---- reindex correspondence
    (ip0, d0, conv0), (ip1, d1, conv1) = hk.calls[-1]
    merged_vertices = any(int(conv0[v]) != v for v in range(len(conv0)))
    if ctx.driver is not None:
        t = ask(ctx, f'c20.reindex {C.enc_list(cells_of((ip0, d0)), enc_flat)} {C.enc_list(int(v) for v in conv0)}')
        mconv = t.lst(lambda: int(t.tok()))
        kept = t.lst(t.nat)
        mcells = t.lst(lambda: read_faces(t))
        if mconv != [int(v) for v in conv1]:
            ctx.disagree('reindex node_conv', case, [int(v) for v in conv1][:40], mconv[:40])
        elif mcells != [parse_flat(c) for c in cells_of((ip1, d1))]:
            ctx.disagree('reindex faces', case, None, None)
        ctx.count('reindex:' + ('with-merged-vertices' if merged_vertices else 'identity-conv'))
    # ---- volume
    finite = coords.shape == (K, 3) and bool(np.all(np.isfinite(coords)))
    pos1 = [tuple(F(float(v)) for v in p) for p in out.nodes.data] if finite else None
    evaluable = finite and used <= set(range(K))          # otherwise already reported as nodes:not-exactly-the-used-nodes / without-coordinates
    vol1 = sum(fan_vol6(parse_flat(c), pos1) for c in out_cells) if evaluable else None
    ctx.count('volume:' + ('not-evaluable(face nodes out of range / node without coordinates)' if not evaluable else
                           'vertices-merged(not-compared)' if merged_vertices else 'no-vertex-merged'))
    if evaluable and not merged_vertices:
        if vol1 != vol0:
            why, suffix = classify_volume_change(ctx, mc, poly, params, [parse_flat(c) for c in cells_of((ip0, d0))], raw_cells,
                                                      out_cells, pos0, pos1, conv1)
            ctx.fail('volume:changed-without-vertex-merge' + suffix,
                     f'no vertices were merged (dist_thresh={params["dist_thresh"]}) but the total volume is {float(vol1 / 6):.12g}, '
                     f'original {float(vol0 / 6):.12g} (ratio {float(vol1 / vol0):.6f}); cos_thresh={params["cos_thresh"]}; node ids '
                     f'{m["order"]}; {why}', case, {'vol6_out': str(vol1), 'vol6_in': str(vol0)})
            ctx.count('volume-change:' + why.split(':')[0])
        else:
            ctx.count('volume:exactly-conserved')
    # ---- the same clause observed through femio's own polyhedron volume kernel (geometry_processor, mode 'linear'): the
    # oracle above computes the fan volume itself; this ties the assumption that it is what femio computes, on every output
    if evaluable and not merged_vertices:
        try:
            fv1 = float(np.sum(quiet(out.calculate_element_volumes, mode='linear', raise_negative_volume=False, update=False)))
            fv0 = float(np.sum(quiet(poly.calculate_element_volumes, mode='linear', raise_negative_volume=False, update=False)))
        except Exception as e:  # noqa
            ctx.fail('volume:femio-kernel-raises', f'calculate_element_volumes(mode="linear") on the compressed / polyhedral input mesh raised '
                     f'{type(e).__name__}: {str(e)[:160]}', case, None)
        else:
            scale = max(float(fan_abs6(raw_cells, pos0)), float(fan_abs6(out_cells, pos1))) / 6
            if vol1 == vol0 and abs(fv1 - fv0) > 1e-9 * scale:
                ctx.fail('volume:femio-kernel-total-changed', f'no vertices were merged and the faces of the output enclose exactly the original '
                         f'volume {float(vol0 / 6):.12g}, but femio\'s own total (calculate_element_volumes, linear) is {fv1:.12g} on the '
                         f'compressed mesh and {fv0:.12g} on the input', case, None)
            if abs(fv1 - float(vol1 / 6)) > 1e-9 * scale or abs(fv0 - float(vol0 / 6)) > 1e-9 * scale:
                ctx.disagree('femio polyhedron volume kernel (linear) vs the exact fan volume', case, [fv0, fv1], [float(vol0 / 6), float(vol1 / 6)])
            ctx.count('volume:femio-kernel-compared')
    ctx.case(key, sample={'kind': 'compress', 'mesh': MG.describe(m), **params, 'cells_in': len(raw_cells), 'cells_out': len(out_cells),
                          'nodes_out': K, 'vertices_merged': merged_vertices}, nontrivial=len(out_cells) < len(raw_cells))
    ctx.count(f'mesh:{m["kind"]}:{m["order"]}')
    ctx.count('cos_thresh:' + str(params['cos_thresh']))
    ctx.count('dist_thresh:' + ('zero' if params['dist_thresh'] == 0 else 'positive'))
    return mc, poly, case


# ---------------------------------------------------------------- merge step and edge removal

def merge_case(ctx, m, K):
    import femio.mesh_compressor as MC
    fd = MG.to_femio(m)
    poly = quiet(fd.to_polyhedron)
    csr = poly.face_data_csr()
    csr = (np.asarray(csr[0], np.int64), np.asarray(csr[1], np.int64))
    raw = cells_of(csr)
    elem_conv = np.arange(len(raw), dtype=np.int32)
    pos = poly.nodes.data.astype(np.float64)
    new = quiet(MC.merge_elements, csr, pos, elem_conv, K)
    groups = cells_of(new)
    case = {'kind': 'merge', 'mesh': MG.to_json(m), 'K': K}
    pos0 = [tuple(F(float(v)) for v in p) for p in poly.nodes.data]
    for g, flat in enumerate(groups):
        members = [p for p in range(len(raw)) if int(elem_conv[p]) == g]
        got = sorted(parse_flat(flat))
        # additivity of the flux (volume of the merged cell = sum of its members), exact
        if fan_vol6(got, pos0) != sum(fan_vol6(parse_flat(raw[p]), pos0) for p in members):
            ctx.fail('merge:volume-not-additive', f'group {g} of cells {members}: fan volume differs from the sum of the members', case, None)
        if cell_ok(got):
            ctx.fail('merge:' + cell_ok(got), f'merged group {g} of cells {members} is not closed', case, flat)
        if ctx.driver is not None:
            t = ask(ctx, 'c20.merge ' + C.enc_list([raw[p] for p in members], enc_flat))
            mod = sorted(read_faces(t))
            if mod != got:
                ctx.disagree('merge_polyhedrons faces', {**case, 'group': members}, got[:10], mod[:10])
        ctx.count('merge:group-size-' + (str(len(members)) if len(members) < 4 else '4+'))
    ctx.case(('merge', MG.enc_mesh(m), K), sample={'kind': 'merge', 'mesh': MG.describe(m), 'K': K, 'groups': len(groups)},
             nontrivial=len(groups) < len(raw))
    # ---- edge removal on the merged cells
    n_edge = 0
    for g, flat in enumerate(groups[:4]):
        faces = parse_flat(flat)
        edges = sorted({(f[i - 1], f[i]) for f in faces for i in range(len(f)) if f[i - 1] < f[i]})
        for (a, b) in ctx.rng.sample(edges, min(3, len(edges))):
            okr, newp = MC.remove_one_edge_from_polyhedron(np.asarray(flat, np.int64), a, b)
            if ctx.driver is None:
                continue
            t = ask(ctx, f'c20.remove_edge {a} {b} {enc_flat(flat)}')
            if t.nat() == 0:
                ctx.count('remove_edge:model-not-applicable')
                continue
            mod = sorted(rot_min(f) for f in read_faces(t))
            n_edge += 1
            if not okr:
                ctx.count('remove_edge:real-refuses(not a simple cycle)')
                continue
            got = sorted(rot_min(f) for f in parse_flat([int(v) for v in newp]))
            if got != mod:
                ctx.disagree('remove_one_edge_from_polyhedron', {**case, 'group': g, 'edge': [a, b]}, got[:8], mod[:8])
            ctx.count('remove_edge:compared')


# ---------------------------------------------------------------- transfers

def mat_rows(mat):
    mat = mat.tocsr()
    return [sorted(int(j) for j in mat.indices[mat.indptr[i]:mat.indptr[i + 1]]) for i in range(mat.shape[0])]



# ---- the FIELD that is transferred: dtype, memory layout, rank (round 5: classes F / N).  The array handed to
# update_data under a fresh name is stored as it is (same dtype, same memory), so the transfer functions see it directly.
FIELD_DTYPES = (['float64'] * 5 + ['int64'] * 3 + ['int32', 'float32', 'float16', 'uint8', 'int8', 'bool'])
FIELD_RARE = ['int16', 'uint16', 'uint32', 'uint64']
FIELD_LAYOUTS = ['C', 'C', 'C', 'F', 'strided', 'readonly']
NARROW = {'bool': 1, 'int8': 8, 'uint8': 8, 'int16': 16, 'uint16': 16}
NARROW_SUFFIX = ':accumulated-in-the-dtype-of-the-field'
RANK1_SUFFIX = ':one-dimensional-field'


def gen_field(rnd):
    dt = rnd.choice(FIELD_DTYPES + [rnd.choice(FIELD_RARE)])
    return {'dtype': dt, 'layout': rnd.choice(FIELD_LAYOUTS), 'rank': 1 if rnd.randrange(16) == 0 else 2, 'seed': rnd.getrandbits(30)}


def make_field(spec, kind, n_in, f_width):
    """the values are drawn from the seed stored in `spec` (a replay gets the same field)
    -> (exact values as rows of Fractions, the numpy array with the dtype / layout / rank of `spec`).  'mean': a constant
    per column; 'sum': arbitrary values (integers: counts).  Every value is exactly representable in the dtype."""
    dt = np.dtype(spec['dtype'])
    w = 1 if spec['rank'] == 1 else f_width
    import random
    rnd = random.Random(f"{spec.get('seed', 0)}:{kind}:{n_in}:{w}")
    if dt.kind == 'b':
        def one():
            return rnd.randint(0, 1)
    elif dt.kind in 'iu':
        if kind == 'mean':
            hi = {'int8': 120, 'uint8': 250, 'int16': 30000, 'uint16': 60000}.get(dt.name, 9)
        else:
            hi = 20
        lo = 0 if dt.kind == 'u' else -hi

        def one():
            return rnd.randint(lo, hi * (2 if dt.kind == 'u' and hi == 20 else 1))
    elif kind == 'mean':
        def one():
            return F(rnd.randint(-9, 9), rnd.choice([1, 2, 4]))
    else:
        def one():
            return F(rnd.randint(-20, 20))
    if kind == 'mean':
        cval = [F(one()) for _ in range(w)]
        x = [list(cval) for _ in range(n_in)]
    else:
        x = [[F(one()) for _ in range(w)] for _ in range(n_in)]
    base = np.array([[float(v) for v in r] for r in x], dtype=np.float64).reshape(n_in, w).astype(dt)
    lay = spec['layout']
    if lay == 'F':
        arr = np.asfortranarray(base)
    elif lay == 'strided':
        wide = np.zeros((n_in, 2 * w + 1), dtype=dt)
        wide[:, 1::2] = base
        arr = wide[:, 1::2]
    else:
        arr = np.ascontiguousarray(base)
    if spec['rank'] == 1:
        arr = np.ascontiguousarray(arr[:, 0]) if lay != 'strided' else arr[:, 0]
    if lay == 'readonly':
        arr.setflags(write=False)
    assert np.array_equal(np.asarray(arr, dtype=np.float64).reshape(n_in, w), np.array([[float(v) for v in r] for r in x]).reshape(n_in, w))
    return x, arr, w


def field_tol(spec):
    dt = np.dtype(spec['dtype'])
    return max(1e-9, 8 * float(np.finfo(dt).eps)) if dt.kind == 'f' else 1e-9


def wrapped_mean(spec, cvals, counts):
    """what a 'mean' of the constant row `cvals` becomes when the sum over the r related entries is accumulated IN the narrow
    integer / bool dtype of the field (wraps modulo 2^bits; bool: logical or) and then divided by r"""
    dt = np.dtype(spec['dtype'])
    bits = NARROW[dt.name]
    out = []
    for r in counts:
        row = []
        for c in cvals:
            c = int(c)
            if dt.kind == 'b':
                s = 1 if (c and r) else 0
            elif dt.kind == 'u':
                s = (c * r) % (1 << bits)
            else:
                s = (c * r + (1 << (bits - 1))) % (1 << bits) - (1 << (bits - 1))
            row.append(s / r if r else float('nan'))
        out.append(row)
    return np.array(out, dtype=np.float64).reshape(len(counts), len(cvals))


def transfer_case(ctx, mc, poly, case, knn, f_width, step=None, field=None):
    rnd = ctx.rng
    hist = {} if step is None else {'step': step}
    seen = {}
    out = mc.output_fem_data
    for level in ('nodal', 'elemental'):
        try:
            mat = quiet(mc.calculate_conversion_matrix_nodal if level == 'nodal' else mc.calculate_conversion_matrix_elemental, knn)
        except Exception as e:  # noqa
            ctx.fail(f'transfer:{level}:matrix-raises', f'conversion matrix ({level}, knn={knn}) raised {type(e).__name__}: {e}',
                     {**case, 'knn': knn}, None)
            continue
        M, N = mat.shape
        rows = mat_rows(mat)
        cols = mat_rows(mat.T)
        empty_r = [i for i, r in enumerate(rows) if not r]
        empty_c = [j for j, c in enumerate(cols) if not c]
        ctx.count(f'matrix:{level}:' + ('rows-and-columns-non-empty' if not empty_r and not empty_c else 'EMPTY-row-or-column'))
        src = {'compress': (poly, out, rows, N, M), 'decompress': (out, poly, cols, M, N)}
        for direction in ('compress', 'decompress'):
            a, b, rws, n_in, n_out = src[direction]
            holder_in = a.nodal_data if level == 'nodal' else a.elemental_data
            holder_out = b.nodal_data if level == 'nodal' else b.elemental_data
            ids_in = a.nodes.ids if level == 'nodal' else a.elements.ids
            fn = getattr(mc, f'{direction}_{level}_data')
            back_fn = getattr(mc, f'{"decompress" if direction == "compress" else "compress"}_{level}_data')
            back_rws = {'compress': cols, 'decompress': rows}[direction]
            for kind in ('mean', 'sum'):
                spec = dict(field) if field is not None else gen_field(rnd)
                x, arr, w = make_field(spec, kind, n_in, f_width)
                n1, n2, n3 = f'in_{direction}_{kind}', f'out_{direction}_{kind}', f'back_{direction}_{kind}'
                for h, nm in ((holder_in, n1), (holder_out, n2), (holder_in, n3)):
                    if nm in h:
                        h.pop(nm)
                snap = arr.copy()
                quiet(holder_in.update_data, ids_in, {n1: arr}, allow_overwrite=True)
                stored = holder_in[n1].data
                exact = np.array([[float(v) for v in r] for r in x], dtype=np.float64).reshape(n_in, w)
                fdesc = f'{spec["dtype"]}/{spec["layout"]}/rank{spec["rank"]}'
                tc = {**case, 'knn': knn, 'level': level, 'direction': direction, 'transfer_kind': kind, 'width': f_width, 'field': spec, **hist}
                sig = f'transfer:{kind}'
                ctxt = (f'{direction}_{level}_data(kind={kind!r}, knn={knn}) of a {fdesc} field' + ('' if step is None else
                        f', call group #{step + 1} of the knn sequence {case.get("knn_seq")} on ONE MeshCompressor object') + ': ')
                ckey = ('transfer', MG.enc_mesh(MG.from_json(case['mesh'])), repr(sorted(case['params'].items())), level, direction, kind, knn, f_width,
                        step, tuple(case.get('knn_seq', ())), fdesc)
                ctx.count(f'field:dtype:{spec["dtype"]}:{kind}')
                ctx.count(f'field:layout:{spec["layout"]}')
                ctx.count(f'field:rank:{spec["rank"]}')
                ctx.count('field:stored-' + ('as-handed-in(same dtype, shared memory)' if getattr(stored, 'dtype', None) == arr.dtype and np.shares_memory(stored, arr)
                                             else 'same-dtype(copied)' if getattr(stored, 'dtype', None) == arr.dtype else 'CONVERTED'))
                try:
                    with np.errstate(all='ignore'):
                        quiet(fn, name_1=n1, name_2=n2, kind=kind, knn=knn)
                    y = np.asarray(holder_out[n2].data, dtype=np.float64)
                except Exception as e:  # noqa
                    ctx.fail(sig + ':raises', ctxt + f'on data of shape {arr.shape} raised {type(e).__name__}: {str(e)[:120]}', tc, None)
                    ctx.case(ckey, nontrivial=True)
                    continue
                y2 = y.reshape(y.shape[0], -1) if y.ndim else y.reshape(1, 1)
                scale = max(1.0, float(np.abs(exact).sum()))
                tol = field_tol(spec) * scale
                law_ok = False
                narrow = False
                # ---- oracle: the documented behaviour
                if y2.shape != (n_out, w) or (spec['rank'] == 1 and y.ndim > 2):
                    ctx.fail(sig + ':shape' + (RANK1_SUFFIX if spec['rank'] == 1 else ''), ctxt + f'maps data of shape {arr.shape} to shape '
                             f'{y.shape}, expected {(n_out,) if spec["rank"] == 1 else (n_out, w)}; grand total {float(np.nansum(y)):.6g} vs {float(exact.sum()):.6g}', tc,
                             {'shape': list(y.shape)})
                elif kind == 'mean':
                    if not np.allclose(y2, exact[0][None, :], rtol=0, atol=tol, equal_nan=False):
                        suffix = ''
                        if spec['dtype'] in NARROW and all(rws) and np.allclose(y2, wrapped_mean(spec, x[0], [len(r) for r in rws]), rtol=0, atol=tol):
                            suffix = NARROW_SUFFIX      # exactly the values of a sum accumulated in the narrow dtype of the field
                            narrow = True
                        bad = int(np.argmax(np.abs(np.nan_to_num(y2 - exact[0][None, :], nan=np.inf)).max(axis=1)))
                        ctx.fail(sig + ':constant-not-kept' + suffix, ctxt + f'constant field {exact[0].tolist()} becomes {y2[bad].tolist()} at entry {bad} '
                                 f'(which has {len(rws[bad])} related entries); first entries {y2[:3].tolist()}...', tc, None)
                    else:
                        law_ok = True
                else:
                    if not np.allclose(y2.sum(axis=0), exact.sum(axis=0), rtol=0, atol=tol):
                        ctx.fail(sig + ':total-not-conserved', ctxt + f'totals {exact.sum(axis=0).tolist()} become {y2.sum(axis=0).tolist()}', tc, None)
                    else:
                        law_ok = True
                # ---- the source field is an argument: it must be what it was (its total / constant is what was transferred)
                try:
                    now = np.asarray(holder_in[n1].data)
                    if now.shape != snap.shape or not np.array_equal(now, snap) or not np.array_equal(arr, snap):
                        ctx.fail(sig + ':source-field-modified', ctxt + f'the source field {n1!r} no longer holds the values it was given (total '
                                 f'{float(np.nansum(np.asarray(now, dtype=np.float64))):.9g}, was {float(exact.sum()):.9g}): the two meshes do not carry the same '
                                 f'{"total" if kind == "sum" else "constant"} after the transfer', tc, None)
                except Exception:  # noqa   (already reported by the laws above if the holder is broken)
                    pass
                # ---- correspondence with the model applied to the real matrix
                if ctx.driver is not None:
                    xs = ' '.join(C.enc_rat(v) for r in x for v in r)
                    if narrow:
                        # Cfg pattern: the tree accumulates the 'mean' sum in the dtype of the field; the deviation was matched entry by
                        # entry against that configuration (wrapped_mean; Lean: C20_mean_narrow_accumulation_counterexample)
                        ctx.count('cfg:mean-accumulated-in-the-dtype-of-the-field(unrepaired)')
                    elif y2.shape == (n_out, w):
                        t = ask(ctx, f'c20.transfer {kind} {n_in} {C.enc_list(rws, C.enc_list)} {w} {xs}')
                        mod = np.array([float(t.rat()) for _ in range(n_out * w)]).reshape(n_out, w) if n_out else y2
                        if not np.allclose(y2, mod, rtol=0, atol=tol):
                            ctx.disagree(f'{direction}_{level}_data {kind}', tc, y2[:4].tolist(), mod[:4].tolist())
                        ctx.count(f'cfg:{kind}-as-documented')
                    elif kind == 'sum' and w == 1 and spec['rank'] == 2 and y2.shape == (n_out, n_in):
                        t = ask(ctx, f'c20.transfer sumbroadcast {n_in} {C.enc_list(rws, C.enc_list)} 1 {xs}')
                        mod = np.array([float(t.rat()) for _ in range(n_out * n_in)]).reshape(n_out, n_in)
                        ctx.count('cfg:sum-broadcast(F12 unrepaired)' if np.allclose(y2, mod, rtol=0, atol=tol) else 'cfg:sum-unknown')
                # ---- "... and back": the field just produced (whatever array type the transfer stored) goes through the opposite
                # function; the constant / the grand total of the ORIGINAL field must come back
                if law_ok:
                    try:
                        with np.errstate(all='ignore'):
                            quiet(back_fn, name_1=n2, name_2=n3, kind=kind, knn=knn)
                        z = np.asarray(holder_in[n3].data, dtype=np.float64)
                    except Exception as e:  # noqa
                        ctx.fail(sig + ':round-trip-raises', ctxt + f'its result (shape {y.shape}) handed to the opposite transfer raised '
                                 f'{type(e).__name__}: {str(e)[:120]}', tc, None)
                    else:
                        z2 = z.reshape(z.shape[0], -1) if z.ndim else z.reshape(1, 1)
                        if z2.shape != (n_in, w):
                            ctx.fail(sig + ':round-trip-shape' + (RANK1_SUFFIX if spec['rank'] == 1 else ''), ctxt + f'and back: shape {z.shape}, expected {arr.shape}', tc, None)
                        elif kind == 'mean' and not np.allclose(z2, exact[0][None, :], rtol=0, atol=tol, equal_nan=False):
                            ctx.fail(sig + ':round-trip-constant-not-kept', ctxt + f'and back: constant field {exact[0].tolist()} becomes {z2[:3].tolist()}...', tc, None)
                        elif kind == 'sum' and not np.allclose(z2.sum(axis=0), exact.sum(axis=0), rtol=0, atol=tol):
                            ctx.fail(sig + ':round-trip-total-not-conserved', ctxt + f'and back: totals {exact.sum(axis=0).tolist()} become {z2.sum(axis=0).tolist()}', tc, None)
                        ctx.count(f'round-trip:{kind}:' + ('all-entries-related' if all(back_rws) else 'some-entry-unrelated'))
                ctx.case(ckey,
                         sample={'kind': case.get('kind') if step is not None else 'transfer', **hist, 'level': level, 'direction': direction, 'transfer_kind': kind, 'knn': knn,
                                 'matrix_shape': [M, N], 'width': f_width, 'field': fdesc}, nontrivial=True)
                ctx.count(f'transfer:{level}:{direction}:{kind}')
        seen[level] = rows
    return seen


def clear_matrix_caches():
    import femio.mesh_compressor as MC
    for name in ('calculate_conversion_matrix_nodal', 'calculate_conversion_matrix_elemental'):
        f = getattr(MC.MeshCompressor, name, None)
        if hasattr(f, 'cache_clear'):
            f.cache_clear()


def gen_knn_seq(rnd, i):
    """sequences of knn used on ONE compressor: returns to an earlier value after a different one (A, B, A), immediate
    repetitions, and free sequences"""
    ks = [1, 2, 3, 5]
    a, b = rnd.sample(ks, 2)
    if i % 4 == 0:
        return [a, b, a]
    if i % 4 == 1:
        return [a, a, b, a, b]
    if i % 4 == 2:
        c = rnd.choice([k for k in ks if k not in (a, b)])
        return [a, b, c, a, c, b]
    return [rnd.choice(ks) for _ in range(rnd.randint(3, 6))]


def transfer_history(ctx, mc, poly, case, knn_seq, f_width, field=None):
    """the same MeshCompressor object used for a sequence of transfers (the conversion matrices are lru_cached per
    (object, knn)): after every call the laws are checked and the result compared with the model on the real matrix"""
    clear_matrix_caches()
    hcase = {**case, 'kind': 'transfer_history', 'knn_seq': list(knn_seq), 'width': f_width}
    mats = {}
    for j, knn in enumerate(knn_seq):
        seen = transfer_case(ctx, mc, poly, hcase, knn, f_width, step=j, field=field)
        for level, rows in seen.items():
            if (level, knn) in mats and mats[(level, knn)] != rows:
                # the matrix of a given knn is a function of the compression, not of the history
                ctx.disagree(f'conversion matrix ({level}) differs between two calls with the same knn on one compressor',
                             {**hcase, 'step': j, 'knn': knn, 'level': level}, rows[:6], mats[(level, knn)][:6])
            mats[(level, knn)] = rows
    returns = any(knn_seq[j] in knn_seq[:j - 1] and knn_seq[j] != knn_seq[j - 1] for j in range(2, len(knn_seq)))
    differ = {level: len({repr(r) for (lv, k), r in mats.items() if lv == level}) > 1 for level in ('nodal', 'elemental')}
    ctx.count('history:' + ('returns-to-an-earlier-knn' if returns else 'no-return') + ':nodal-matrices-'
              + ('differ' if differ['nodal'] else 'all-equal') + ':elemental-' + ('differ' if differ['elemental'] else 'all-equal'))
    ctx.count('history:length-' + str(len(knn_seq)))
    ctx.case(('history', MG.enc_mesh(MG.from_json(case['mesh'])), repr(sorted(case['params'].items())), tuple(knn_seq), f_width),
             sample={'kind': 'transfer_history', 'knn_seq': list(knn_seq), 'width': f_width, 'mesh': MG.describe(MG.from_json(case['mesh'])),
                     'returns_to_earlier_knn': returns, 'matrices_differ': differ},
             nontrivial=returns and (differ['nodal'] or differ['elemental']))
    return returns and differ['nodal']


def reorder_nodes(rnd, m, order):
    """the same mesh (ids, coordinates, connectivity by id) with its node table stored in another order class"""
    ids = [i for i, _ in m['nodes']]
    pos = dict(m['nodes'])
    keys, order = MG.order_ids(rnd, ids, {i: i for i in ids}, order)
    out = dict(m)
    out.update(nodes=[(i, pos[i]) for i in keys], order=order)
    return out


# ---------------------------------------------------------------- entry points

def f12_volume_case():
    """the probe of DESIGN section 5 (F12): sheared 3x3x3 tet brick, cos_thresh = 0.5, dist_thresh = 0"""
    pts, el = {}, []

    def idx(x, y, z):
        return x + 4 * (y + 4 * z)
    for z in range(4):
        for y in range(4):
            for x in range(4):
                pts[idx(x, y, z)] = (F(x) + F(y, 2), F(y) + F(z, 4), F(z))
    for z in range(3):
        for y in range(3):
            for x in range(3):
                c = [idx(x, y, z), idx(x + 1, y, z), idx(x + 1, y + 1, z), idx(x, y + 1, z),
                     idx(x, y, z + 1), idx(x + 1, y, z + 1), idx(x + 1, y + 1, z + 1), idx(x, y + 1, z + 1)]
                el += [[c[i] for i in t] for t in MG.KUHN]
    nodes = [(k + 1, pts[k]) for k in sorted(pts)]
    blocks = {'tet': [(e + 1, [n + 1 for n in c]) for e, c in enumerate(el)]}
    m = {'kind': 'tet', 'order': 'asc', 'id_style': 'dense', 'nodes': nodes, 'blocks': blocks}
    for e, c in blocks['tet']:
        if MG.signed('tet', [pts[n - 1] for n in c]) < 0:
            c[1], c[2] = c[2], c[1]
    return m, {'elem_num': 3, 'cos_thresh': 0.5, 'dist_thresh': 0.0, 'knn': 2}


def run(ctx):
    import femio  # noqa
    n_comp = ctx.n(80, 5000)
    n_transfer = ctx.n(14, 400)
    n_merge = ctx.n(14, 400)
    n_hist = ctx.n(8, 300)
    n_sweep = ctx.n(2, 60)
    warm_up()
    _steps.run_stream(ctx)      # staged replay of compress() against the step models (Props/C20Pipeline.lean)
    for name, obj in C.corpus_cases(PROP):
        r = replay(ctx, {'input': obj.get('input', obj)})
        ctx.count('corpus:' + ('fails' if r.get('fails') else 'passes'))
    # the design-phase probe first (known shape of the volume finding)
    m, params = f12_volume_case()
    compress_case(ctx, m, params, 'F12-probe')
    done_t = 0
    for i in range(n_comp):
        m, params = gen_case(ctx.rng, i)
        r = compress_case(ctx, m, params)
        if r is not None and done_t < n_transfer and i % 3 == 0:
            mc, poly, case = r
            transfer_case(ctx, mc, poly, case, params['knn'], 1 if done_t % 3 else ctx.rng.choice([2, 3]))
            done_t += 1
    # stream 'history': ONE compressor object, a sequence of transfers with varying knn (A, B, A; repetitions; free)
    done_h = 0
    for i in range(4 * n_hist):
        if done_h >= n_hist:
            break
        m, params = gen_history_case(ctx.rng, i)
        r = compress_case(ctx, m, params, 'history')
        if r is None:
            continue
        mc, poly, case = r
        if len(mc.output_fem_data.nodes.data) >= len(poly.nodes.data) and i % 4:
            ctx.count('history:compression-kept-every-node(skipped)')
            continue
        transfer_history(ctx, mc, poly, case, gen_knn_seq(ctx.rng, done_h), 1 if done_h % 3 else ctx.rng.choice([2, 3]))
        done_h += 1
    # stream 'order-sweep': one geometry and one id set under every storage order class of the node table, no vertex
    # merging, thresholds that admit (next to) no angle merge: the volume clause on all of them
    for j in range(n_sweep):
        base = MG.gen_geometric(ctx.rng, kind='tet' if j % 2 == 0 else 'hex', max_cells=3, jitter=False, voids=False, unref=False,
                                order='asc', affine=True)
        n = sum(len(b) for b in base['blocks'].values())
        params = {'elem_num': ctx.rng.choice([1, 2, 3, n]), 'cos_thresh': ctx.rng.choice([1 - 1e-9, 0.999]), 'dist_thresh': 0.0, 'knn': 1}
        for order in ('asc', 'desc', 'shuf', 'midshuf', 'swap2'):
            compress_case(ctx, reorder_nodes(ctx.rng, base, order), params, 'order-sweep')
            ctx.count('order-sweep:' + order)
    # stream 'shallow-angle': faces meeting at very shallow non-zero angles, thresholds that admit only coplanar merges
    for i in range(ctx.n(14, 240)):
        m, params = shallow_case(ctx.rng, i)
        compress_case(ctx, m, params, 'shallow-angle')
        ctx.count(f'shallow-angle:{m["kind"]}:{m["shallow"]}:cos_thresh={"1" if params["cos_thresh"] == 1.0 else "1-1e-9"}')
    # stream 'sharp-edge': bodies with knife / blunt / reflex boundary edges (c20_shapes), full sweep of cos_thresh including
    # negative values and values just above / below the cosines of the body's own edges, dist_thresh = 0: the volume clause
    import femio.mesh_compressor as MC
    done_s = 0
    for i in range(ctx.n(70, 1500)):
        m, params = _shapes.sharp_case(ctx.rng, i)
        r = compress_case(ctx, m, params, 'sharp-edge')
        ctx.count(f'sharp-edge:{m["shape"].split(":")[0]}:{m["kind"]}')
        ctx.count('sharp-edge:cos_thresh:' + m['thresh_how'])
        T = params['cos_thresh']
        if T > 0 and any(c < T - 1e-9 and -c >= T for c in m['cosines']):
            ctx.count('sharp-edge:cos_thresh between c and |c| of a knife edge of the body (sign-sensitive)')
        if any(abs(c - T) <= 1e-3 + 1e-12 for c in m['cosines']):
            ctx.count('sharp-edge:cos_thresh within 1e-3 of the cosine of an edge of the body')
        if r is not None and i % 7 == 0 and done_s < ctx.n(6, 100):
            transfer_case(ctx, r[0], r[1], r[2], params['knn'], 1 + done_s % 2)
            done_s += 1
    # stream 'thin-layer': vertices ARE merged (dist_thresh between the thin and the unit spacing) and knn in {2, 3, 5}:
    # both original nodes of a merged pair stand in one neighbour list under the same compressed node
    for i in range(ctx.n(9, 200)):
        m, params = _shapes.thin_layer_case(ctx.rng, i)
        r = compress_case(ctx, m, params, 'thin-layer')
        if r is None:
            ctx.count('thin-layer:no-compressed-mesh')
            continue
        mc, poly, case = r
        conv = [int(v) for v in mc.node_conv]
        n_merged = len([v for v in conv if v >= 0]) - len({v for v in conv if v >= 0})
        try:
            nbd = quiet(MC.calculate_nodal_knn, mc.csr_raw, mc.node_conv, mc.node_pos, params['knn'])
            dup = sum(1 for row in nbd.tolist() if len({v for v in row if v != -1}) < len([v for v in row if v != -1]))
        except Exception:  # noqa   (a diagnostic of the input distribution only)
            dup = -1
        ctx.count('thin-layer:' + ('vertices-merged' if n_merged else 'NO-vertex-merged') + ':knn-lists-with-a-duplicate-representative:'
                  + ('some' if dup > 0 else 'none' if dup == 0 else 'unknown') + f':knn={params["knn"]}')
        if i % 3 == 0:
            k2 = ctx.rng.choice([k for k in (1, 2, 3, 5) if k != params['knn']])
            transfer_history(ctx, mc, poly, case, [params['knn'], k2, params['knn']], 1 + i % 2)
        else:
            transfer_case(ctx, mc, poly, case, params['knn'], 1 + i % 3)
    # stream 'chain-collapse': dist_thresh clearly above the local edge length along one / two axes (chains of nodes collapse)
    for i in range(ctx.n(16, 300)):
        m, params = chain_case(ctx.rng, i)
        r = compress_case(ctx, m, params, 'chain-collapse')
        ctx.count('chain-collapse:' + m['shape'].split(':')[1] + ':' + m['kind'])
        if r is None:
            ctx.count('chain-collapse:no-compressed-mesh')
            continue
        mc, poly, case = r
        conv = [int(v) for v in mc.node_conv]
        groups = {}
        for v in conv:
            if v >= 0:
                groups[v] = groups.get(v, 0) + 1
        big = max(groups.values()) if groups else 0
        ctx.count('chain-collapse:largest-set-of-input-nodes-merged-into-one:' + (str(big) if big < 4 else '4+'))
        ctx.count('chain-collapse:cells-out:' + ('1' if len(mc.output_fem_data.elements.data) == 1 else '2+'))
        transfer_case(ctx, mc, poly, case, params['knn'], 1 + i % 2)
    for i in range(n_merge):
        m, _ = gen_case(ctx.rng, i)
        n = sum(len(b) for b in m['blocks'].values())
        merge_case(ctx, m, ctx.rng.choice([2, 3, 6, max(2, n // 2), n]))
    ctx.extra['dry_runs'] = {'n': DRY_STATS['n'], 'slowest_completed_s': round(DRY_STATS['max_s'], 2), 'hit_time_cap': DRY_STATS['timeouts'],
                             'caps': f'{MEM_EXTRA >> 20} MiB additional address space, {TIME_CAP[0]:.0f} s'}
    # which configuration of the 'sum' transfer does the tree implement (Cfg pattern, DESIGN section 5 F12)?
    doc, bro = ctx.dist.get('cfg:sum-as-documented', 0), ctx.dist.get('cfg:sum-broadcast(F12 unrepaired)', 0)
    ctx.extra['cfg_detected'] = ('sum transfer as documented (theorems C20_sum_total / _back apply)' if doc and not bro else
                                 'sum transfer broadcasts (N,f)/(1,N): F12 unrepaired (C20_sum_broadcast_counterexample)' if bro
                                 else 'undetermined')


def replay(ctx, obj):
    if obj.get('input', {}).get('kind') == 'steps':
        return _steps.replay(ctx, obj)
    case = obj['input']
    before = len(ctx.failures)
    m = MG.from_json(case['mesh'])
    if case.get('kind') == 'merge':
        merge_case(ctx, m, case['K'])
    else:
        r = compress_case(ctx, m, case['params'], 'replay')
        if r is not None and 'knn_seq' in case:
            mc, poly, c2 = r
            transfer_history(ctx, mc, poly, c2, case['knn_seq'], case.get('width', 1), field=case.get('field'))
        elif r is not None and 'knn' in case and 'level' in case:
            mc, poly, c2 = r
            transfer_case(ctx, mc, poly, c2, case['knn'], case.get('width', 1), field=case.get('field'))
    new = ctx.failures[before:]
    want = None
    if 'transfer_kind' in case:
        want = 'transfer:' + case['transfer_kind']
    sel = [f for f in new if want is None or f['signature'].startswith(want)] or new
    return {'fails': bool(sel), 'failures': [{'signature': f['signature'], 'what': f['what']} for f in sel[:8]],
            'disagreements_with_model': ctx.disagreements[-3:]}
