"""C20 - mesh compression conserves volume, validity and transferred totals (DESIGN.md section 4, C20).

What is *proved* (Lean, all inputs): the cell checker, the cancellation / edge-merge / reindex step lemmas and the
transfer algebra.  What this harness does on every run:

* VALIDATION (not proof): real `MeshCompressor.compress` on polyhedral meshes made from tet / hex bricks (affine
  images), sweeps of elem_num / cos_thresh / dist_thresh; **every output cell goes through the verified checker**
  `Femio.C20.checkCell` in the driver (theorem `C20_checker_sound`), and through an independent Python statement of the
  same clause (the oracle).
* Tie D for the modelled steps: `merge_elements` (face cancellation) vs `mergeCells` per merged group; `reindex`
  (arguments captured by wrapping the module-level function) vs `reindex`; `remove_one_edge_from_polyhedron` vs
  `removeEdge`; the four transfer functions vs `transferMean` / `transferSum` applied to the *real* conversion
  matrices (the matrix construction itself - BFS over cells, counting - is observed, not modelled).
* Oracle: listed nodes = nodes used by the faces, numbered 1..K; total volume (exact rational fan volume of the output
  faces at the output coordinates) = original total when no vertices were merged; 'mean' keeps constants and 'sum'
  keeps the grand total, both directions, nodal and elemental.
"""
import contextlib
import io
from fractions import Fraction as F

import numpy as np

from . import common as C
from . import meshgen as MG

PROP = 'C20'
LEAN_MODULES = ['Femio.Props.C20']
THEOREMS = []          # filled from the audit list below
PARTIAL = [
    'the heuristic pipeline of compress() (randomised face hashing, float thresholds cos_thresh / dist_thresh, greedy '
    'edge / vertex orders, remove_vertices_2, merge_vertices) is NOT modelled end to end: validity of each concrete '
    'output is established per run by the verified checker (validation), the theorems cover the checker, the face '
    'cancellation, the edge merge, reindex and the transfer algebra',
    'volume conservation is a theorem only for the modelled steps under the coplanarity hypothesis of C20_edge_merge; '
    'removal of degree-2 vertices is not modelled',
    'the construction of the conversion matrices (calculate_nodal_knn / calculate_elemental_knn) is observed, not '
    'modelled: C20_rows_cols_nonempty is about the matrix assembled from a given neighbour table',
]
RULE = ('meshes: tet (6 Kuhn tets per cell) and hex bricks of 1..3 cells per axis under a random rational affine map with '
        'positive determinant, node ids dense/sparse/large in ascending/descending/shuffled storage order; parameters: '
        'elem_num in {1,2,3,5,8,n,2n} x cos_thresh in {1-1e-9, 0.999, 0.99, 0.9, 0.5, 0, -1} x dist_thresh in {0, 0.1, 0.5, 2} '
        'x edge scale; knn in {1,2,3,5}; a case is non-trivial when the output has fewer cells than the input; '
        'distinct = distinct (mesh, parameters)')
ASSUMPTIONS = [
    'node indices are < 2^32 (the code packs a directed edge into one int64)',
    'face hashes (random base modulo 2^61-1) do not collide',
    'the volume of a cell with non-planar faces is taken by the fan triangulation from each face\'s first node, which is '
    'what femio\'s polyhedron volume kernel computes',
    'float results of the transfer functions are compared with the exact rational model values at relative tolerance 1e-9',
]
TRUSTED = ['C20: np.matrix / scipy.sparse products of the transfer functions are observed through their results only']

THEOREMS = ['C20_checker_sound', 'C20_check_polyhedron_spec', 'C20_checker_set_not_multiset', 'C20_merge_closed_additive',
            'C20_merge_closed', 'C20_merge_closed_additive_nodup', 'C20_merge_closed_nodup', 'C20_edge_merge', 'C20_edge_merge_flux', 'C20_nodes_exact', 'C20_mean_constants', 'C20_mean_constants_back', 'C20_sum_total',
            'C20_sum_total_back', 'C20_sum_broadcast_counterexample', 'C20_rows_cols_nonempty']


def quiet(f, *a, **k):
    with contextlib.redirect_stdout(io.StringIO()), contextlib.redirect_stderr(io.StringIO()):
        return f(*a, **k)


# ---------------------------------------------------------------- plain-Python statements of the clauses (oracle)

def parse_flat(flat):
    flat = [int(v) for v in flat]
    m, L, faces = flat[0], 1, []
    for _ in range(m):
        k = flat[L]
        faces.append(flat[L + 1:L + 1 + k])
        L += 1 + k
    return faces


def cell_ok(faces):
    """the property's clause: every face edge matched by the reverse edge in the same cell, >= 3 distinct nodes"""
    edges = set()
    for f in faces:
        if len(f) < 3:
            return 'face-with-fewer-than-3-nodes'
        if len(set(f)) != len(f):
            return 'repeated-node-in-face'
        edges |= {(f[i - 1], f[i]) for i in range(len(f))}
    if any((b, a) not in edges for a, b in edges):
        return 'edge-without-reverse'
    return None


def fan_vol6(faces, pos):
    """6 x volume by femio's polyhedron kernel, exact"""
    v = F(0)
    for f in faces:
        a = pos[f[0]]
        for i in range(2, len(f)):
            v += MG.det3(a, pos[f[i - 1]], pos[f[i]])
    return v


def admits_angle_merge(cells, pos, cos_thresh):
    """is there a pair of non-parallel (outward) face normals in the input whose cosine reaches the threshold?"""
    dirs = set()
    for c in cells:
        for f in parse_flat(c):
            P = [pos[v] for v in f]
            n = [F(0)] * 3
            for i in range(2, len(P)):
                u, w = MG.sub(P[i - 1], P[0]), MG.sub(P[i], P[0])
                n = [n[0] + u[1] * w[2] - u[2] * w[1], n[1] + u[2] * w[0] - u[0] * w[2], n[2] + u[0] * w[1] - u[1] * w[0]]
            s = max(abs(v) for v in n)
            if s:
                dirs.add(tuple(v / s for v in n))
    dirs = sorted(dirs)
    for i, a in enumerate(dirs):
        for b in dirs[:i]:
            cr = (a[1] * b[2] - a[2] * b[1], a[2] * b[0] - a[0] * b[2], a[0] * b[1] - a[1] * b[0])
            if any(cr):
                cs = float(sum(x * y for x, y in zip(a, b))) / (float(sum(x * x for x in a)) * float(sum(y * y for y in b))) ** .5
                if cs >= cos_thresh - 1e-9:
                    return True
    return False


def nonplanar(f, pos):
    """exact: the nodes of the face do not lie in one plane"""
    P = [pos[v] for v in f]
    for i in range(1, len(P)):
        for j in range(i + 1, len(P)):
            u, w = MG.sub(P[i], P[0]), MG.sub(P[j], P[0])
            n = (u[1] * w[2] - u[2] * w[1], u[2] * w[0] - u[0] * w[2], u[0] * w[1] - u[1] * w[0])
            if any(n):
                return any(sum(a * b for a, b in zip(n, MG.sub(q, P[0]))) != 0 for q in P)
    return False


def enc_flat(flat):
    return C.enc_list([int(v) for v in flat])


def rot_min(f):
    i = f.index(min(f))
    return f[i:] + f[:i]


# ---------------------------------------------------------------- generators

COS = [1 - 1e-9, 0.999, 0.99, 0.9, 0.5, 0.0, -1.0]
DIST = [0.0, 0.0, 0.5, 1.01, 1.5, 3.0]      # x the shortest node distance inside an element


def gen_case(rnd, i):
    kind = 'tet' if i % 2 == 0 else 'hex'
    m = MG.gen_geometric(rnd, kind=kind, max_cells=3 if kind == 'hex' or i % 4 else 2, jitter=False, voids=False,
                         unref=False, affine=(i % 5 != 4))
    n = sum(len(b) for b in m['blocks'].values())
    pos = dict(m['nodes'])
    emin = min(sum(float(a - b) ** 2 for a, b in zip(pos[c[i]], pos[c[j]])) ** .5
               for b in m['blocks'].values() for _, c in b for i in range(len(c)) for j in range(i))
    params = {'elem_num': rnd.choice([1, 2, 3, 5, 8, n, 2 * n]), 'cos_thresh': COS[i % len(COS)] if i % 3 else rnd.choice(COS),
              'dist_thresh': round(rnd.choice(DIST) * emin, 6), 'knn': rnd.choice([1, 2, 3, 5])}
    return m, params


# ---------------------------------------------------------------- one compression

class Hooks:
    """capture the arguments of the module-level `reindex` call made by compress()"""

    def __init__(self):
        import femio.mesh_compressor as MC
        self.MC = MC
        self.calls = []

    def __enter__(self):
        self.orig = self.MC.reindex

        def wrapped(csr, node_conv):
            before = (csr[0].copy(), csr[1].copy(), node_conv.copy())
            r = self.orig(csr, node_conv)
            self.calls.append((before, (csr[0].copy(), csr[1].copy(), node_conv.copy())))
            return r
        self.MC.reindex = wrapped
        return self

    def __exit__(self, *a):
        self.MC.reindex = self.orig


def cells_of(csr):
    indptr, dat = csr
    return [[int(v) for v in dat[indptr[p]:indptr[p + 1]]] for p in range(len(indptr) - 1)]


def ask(ctx, line):
    rep = ctx.driver.ask(line)
    t = C.Toks(rep)
    if t.tok() != 'ok':
        raise RuntimeError('driver: ' + rep[:200] + ' <- ' + line[:200])
    return t


def read_faces(t):
    return t.lst(lambda: t.lst(t.nat))


def compress_case(ctx, m, params, label='generated'):
    import femio.mesh_compressor as MC
    fd = MG.to_femio(m)
    poly = quiet(fd.to_polyhedron)
    case = {'kind': 'compress', 'mesh': MG.to_json(m), 'params': params}
    raw_cells = cells_of(poly.face_data_csr())
    pos0 = [tuple(F(float(v)) for v in p) for p in poly.nodes.data]
    vol0 = sum(fan_vol6(parse_flat(c), pos0) for c in raw_cells)
    mc = MC.MeshCompressor(fem_data=poly)
    key = ('compress', MG.enc_mesh(m), tuple(sorted(params.items())))
    with Hooks() as hk:
        try:
            ok = quiet(mc.compress, elem_num=params['elem_num'], cos_thresh=params['cos_thresh'], dist_thresh=params['dist_thresh'])
        except Exception as e:  # noqa   (a valid brick must compress: no compressed mesh at all is reported, with the input)
            ctx.fail('compress:raises', f'compress({params}) raised {type(e).__name__}: {str(e)[:160]}', case, None)
            ctx.case(key, nontrivial=True)
            return None
    ctx.count('compress:' + ('ok' if ok else 'compressed-to-nothing'))
    if not ok:
        ctx.case(key, nontrivial=False)
        return None
    out = mc.output_fem_data
    out_cells = [[int(v) for v in row] for row in out.elemental_data['face']['polyhedron'].data]
    K = len(out.nodes.data)
    # ---- closed cells (validation through the verified checker + independent oracle)
    used = set()
    for ci, flat in enumerate(out_cells):
        faces = parse_flat(flat)
        used |= {v for f in faces for v in f}
        bad = cell_ok(faces)
        if bad:
            ctx.fail('cell:' + bad, f'output cell {ci} is not a closed polyhedral cell ({bad}): faces {faces[:6]}',
                     {**case, 'cell_index': ci}, flat)
        if ctx.driver is not None:
            t = ask(ctx, 'c20.check_cell ' + enc_flat(flat))
            parsed, chk, cell, bal = t.nat(), t.nat(), t.nat(), t.nat()
            nodes = t.lst(t.nat)
            ctx.count('verified-checker:' + ('accepted' if cell else 'REJECTED'))
            if not bal:
                ctx.count('cell:edge-multiset-not-balanced(set-closed)')
            if bool(cell) != (bad is None) or not parsed:
                ctx.disagree('checkCell vs the clause evaluated in Python', {**case, 'cell_index': ci}, bad, [parsed, chk, cell])
            listed = sorted(int(v) - 1 for v in out.elements.data[ci])
            if nodes != listed:
                ctx.disagree('cell node list (collect_vertex)', {**case, 'cell_index': ci}, listed, nodes)
    # ---- exactly the listed nodes
    ids = [int(i) for i in out.nodes.ids]
    if ids != list(range(1, K + 1)) or used != set(range(K)):
        ctx.fail('nodes:not-exactly-the-used-nodes', f'{K} nodes listed with ids {ids[:8]}..., faces use {len(used)} distinct indices '
                 f'(unused: {sorted(set(range(K)) - used)[:8]}, out of range: {sorted(used - set(range(K)))[:8]})', case, None)
    for ci, flat in enumerate(out_cells):
        want = sorted({v for f in parse_flat(flat) for v in f})
        if sorted(int(v) - 1 for v in out.elements.data[ci]) != want:
            ctx.fail('nodes:element-node-list', f'cell {ci}: element row {list(out.elements.data[ci])} != nodes of its faces {want}', case, None)
            break
    # ---- reindex correspondence
    (ip0, d0, conv0), (ip1, d1, conv1) = hk.calls[-1]
    merged_vertices = any(int(conv0[v]) != v for v in range(len(conv0)))
    if ctx.driver is not None:
        t = ask(ctx, f'c20.reindex {C.enc_list(cells_of((ip0, d0)), enc_flat)} {C.enc_list(int(v) for v in conv0)}')
        mconv = t.lst(lambda: int(t.tok()))
        kept = t.lst(t.nat)
        mcells = t.lst(lambda: read_faces(t))
        if mconv != [int(v) for v in conv1]:
            ctx.disagree('reindex node_conv', case, [int(v) for v in conv1][:40], mconv[:40])
        elif mcells != [parse_flat(c) for c in cells_of((ip1, d1))]:
            ctx.disagree('reindex faces', case, None, None)
        ctx.count('reindex:' + ('with-merged-vertices' if merged_vertices else 'identity-conv'))
    # ---- volume
    pos1 = [tuple(F(float(v)) for v in p) for p in out.nodes.data]
    evaluable = used <= set(range(K))          # otherwise already reported as nodes:not-exactly-the-used-nodes
    vol1 = sum(fan_vol6(parse_flat(c), pos1) for c in out_cells) if evaluable else None
    ctx.count('volume:' + ('not-evaluable(face nodes out of range)' if not evaluable else
                           'vertices-merged(not-compared)' if merged_vertices else 'no-vertex-merged'))
    if evaluable and not merged_vertices:
        if vol1 != vol0:
            planar = not admits_angle_merge(raw_cells, pos0, params['cos_thresh'])
            ctx.fail('volume:changed-without-vertex-merge' + ('' if planar else ':faces-merged-across-an-angle'),
                     f'no vertices were merged (dist_thresh={params["dist_thresh"]}) but the total volume is {float(vol1 / 6):.12g}, '
                     f'original {float(vol0 / 6):.12g} (ratio {float(vol1 / vol0):.6f}); cos_thresh={params["cos_thresh"]}; '
                     + ('no two non-parallel face normals of the input reach cos_thresh' if planar else
                        'the threshold admits merging faces that are not coplanar'), case,
                     {'vol6_out': str(vol1), 'vol6_in': str(vol0)})
        else:
            ctx.count('volume:exactly-conserved')
    ctx.case(key, sample={'kind': 'compress', 'mesh': MG.describe(m), **params, 'cells_in': len(raw_cells), 'cells_out': len(out_cells),
                          'nodes_out': K, 'vertices_merged': merged_vertices}, nontrivial=len(out_cells) < len(raw_cells))
    ctx.count(f'mesh:{m["kind"]}:{m["order"]}')
    ctx.count('cos_thresh:' + str(params['cos_thresh']))
    ctx.count('dist_thresh:' + ('zero' if params['dist_thresh'] == 0 else 'positive'))
    return mc, poly, case


# ---------------------------------------------------------------- merge step and edge removal

def merge_case(ctx, m, K):
    import femio.mesh_compressor as MC
    fd = MG.to_femio(m)
    poly = quiet(fd.to_polyhedron)
    csr = poly.face_data_csr()
    csr = (np.asarray(csr[0], np.int64), np.asarray(csr[1], np.int64))
    raw = cells_of(csr)
    elem_conv = np.arange(len(raw), dtype=np.int32)
    pos = poly.nodes.data.astype(np.float64)
    new = quiet(MC.merge_elements, csr, pos, elem_conv, K)
    groups = cells_of(new)
    case = {'kind': 'merge', 'mesh': MG.to_json(m), 'K': K}
    pos0 = [tuple(F(float(v)) for v in p) for p in poly.nodes.data]
    for g, flat in enumerate(groups):
        members = [p for p in range(len(raw)) if int(elem_conv[p]) == g]
        got = sorted(parse_flat(flat))
        # additivity of the flux (volume of the merged cell = sum of its members), exact
        if fan_vol6(got, pos0) != sum(fan_vol6(parse_flat(raw[p]), pos0) for p in members):
            ctx.fail('merge:volume-not-additive', f'group {g} of cells {members}: fan volume differs from the sum of the members', case, None)
        if cell_ok(got):
            ctx.fail('merge:' + cell_ok(got), f'merged group {g} of cells {members} is not closed', case, flat)
        if ctx.driver is not None:
            t = ask(ctx, 'c20.merge ' + C.enc_list([raw[p] for p in members], enc_flat))
            mod = sorted(read_faces(t))
            if mod != got:
                ctx.disagree('merge_polyhedrons faces', {**case, 'group': members}, got[:10], mod[:10])
        ctx.count('merge:group-size-' + (str(len(members)) if len(members) < 4 else '4+'))
    ctx.case(('merge', MG.enc_mesh(m), K), sample={'kind': 'merge', 'mesh': MG.describe(m), 'K': K, 'groups': len(groups)},
             nontrivial=len(groups) < len(raw))
    # ---- edge removal on the merged cells
    n_edge = 0
    for g, flat in enumerate(groups[:4]):
        faces = parse_flat(flat)
        edges = sorted({(f[i - 1], f[i]) for f in faces for i in range(len(f)) if f[i - 1] < f[i]})
        for (a, b) in ctx.rng.sample(edges, min(3, len(edges))):
            okr, newp = MC.remove_one_edge_from_polyhedron(np.asarray(flat, np.int64), a, b)
            if ctx.driver is None:
                continue
            t = ask(ctx, f'c20.remove_edge {a} {b} {enc_flat(flat)}')
            if t.nat() == 0:
                ctx.count('remove_edge:model-not-applicable')
                continue
            mod = sorted(rot_min(f) for f in read_faces(t))
            n_edge += 1
            if not okr:
                ctx.count('remove_edge:real-refuses(not a simple cycle)')
                continue
            got = sorted(rot_min(f) for f in parse_flat([int(v) for v in newp]))
            if got != mod:
                ctx.disagree('remove_one_edge_from_polyhedron', {**case, 'group': g, 'edge': [a, b]}, got[:8], mod[:8])
            ctx.count('remove_edge:compared')


# ---------------------------------------------------------------- transfers

def mat_rows(mat):
    mat = mat.tocsr()
    return [sorted(int(j) for j in mat.indices[mat.indptr[i]:mat.indptr[i + 1]]) for i in range(mat.shape[0])]


def transfer_case(ctx, mc, poly, case, knn, f_width):
    rnd = ctx.rng
    out = mc.output_fem_data
    for level in ('nodal', 'elemental'):
        try:
            mat = quiet(mc.calculate_conversion_matrix_nodal if level == 'nodal' else mc.calculate_conversion_matrix_elemental, knn)
        except Exception as e:  # noqa
            ctx.fail(f'transfer:{level}:matrix-raises', f'conversion matrix ({level}, knn={knn}) raised {type(e).__name__}: {e}',
                     {**case, 'knn': knn}, None)
            continue
        M, N = mat.shape
        rows = mat_rows(mat)
        cols = mat_rows(mat.T)
        empty_r = [i for i, r in enumerate(rows) if not r]
        empty_c = [j for j, c in enumerate(cols) if not c]
        ctx.count(f'matrix:{level}:' + ('rows-and-columns-non-empty' if not empty_r and not empty_c else 'EMPTY-row-or-column'))
        src = {'compress': (poly, out, rows, N, M), 'decompress': (out, poly, cols, M, N)}
        for direction in ('compress', 'decompress'):
            a, b, rws, n_in, n_out = src[direction]
            holder_in = a.nodal_data if level == 'nodal' else a.elemental_data
            holder_out = b.nodal_data if level == 'nodal' else b.elemental_data
            ids_in = a.nodes.ids if level == 'nodal' else a.elements.ids
            fn = getattr(mc, f'{direction}_{level}_data')
            for kind in ('mean', 'sum'):
                if kind == 'mean':
                    cval = [F(rnd.randint(-9, 9), rnd.choice([1, 2, 4])) for _ in range(f_width)]
                    x = [[c for c in cval] for _ in range(n_in)]
                else:
                    x = [[F(rnd.randint(-20, 20)) for _ in range(f_width)] for _ in range(n_in)]
                n1, n2 = f'in_{direction}_{kind}', f'out_{direction}_{kind}'
                arr = np.array([[float(v) for v in r] for r in x])
                for h, nm in ((holder_in, n1), (holder_out, n2)):
                    if nm in h:
                        h.pop(nm)
                quiet(holder_in.update_data, ids_in, {n1: arr}, allow_overwrite=True)
                tc = {**case, 'knn': knn, 'level': level, 'direction': direction, 'transfer_kind': kind, 'width': f_width}
                sig = f'transfer:{kind}'
                try:
                    quiet(fn, name_1=n1, name_2=n2, kind=kind, knn=knn)
                    y = np.asarray(holder_out[n2].data, dtype=np.float64)
                except Exception as e:  # noqa
                    ctx.fail(sig + ':raises', f'{direction}_{level}_data(kind={kind!r}, knn={knn}) on data of shape {arr.shape} raised '
                             f'{type(e).__name__}: {str(e)[:120]}', tc, None)
                    ctx.case(('transfer', case['params'].__repr__(), level, direction, kind, knn, f_width), nontrivial=True)
                    continue
                y2 = y.reshape(y.shape[0], -1)
                scale = max(1.0, float(np.abs(arr).sum()))
                # ---- oracle: the documented behaviour
                if y2.shape != (n_out, f_width):
                    ctx.fail(sig + ':shape', f'{direction}_{level}_data(kind={kind!r}) maps data of shape {(n_in, f_width)} to shape '
                             f'{y.shape}, expected {(n_out, f_width)}; grand total {float(np.nansum(y)):.6g} vs {float(arr.sum()):.6g}', tc,
                             {'shape': list(y.shape)})
                elif kind == 'mean':
                    if not np.allclose(y2, arr[0][None, :], rtol=0, atol=1e-9 * scale, equal_nan=False):
                        ctx.fail(sig + ':constant-not-kept', f'constant field {arr[0].tolist()} becomes {y2[:3].tolist()}...', tc, None)
                else:
                    if not np.allclose(y2.sum(axis=0), arr.sum(axis=0), rtol=0, atol=1e-9 * scale):
                        ctx.fail(sig + ':total-not-conserved', f'totals {arr.sum(axis=0).tolist()} become {y2.sum(axis=0).tolist()}', tc, None)
                # ---- correspondence with the model applied to the real matrix
                if ctx.driver is not None:
                    xs = ' '.join(C.enc_rat(v) for r in x for v in r)
                    if y2.shape == (n_out, f_width):
                        t = ask(ctx, f'c20.transfer {kind} {n_in} {C.enc_list(rws, C.enc_list)} {f_width} {xs}')
                        mod = np.array([float(t.rat()) for _ in range(n_out * f_width)]).reshape(n_out, f_width) if n_out else y2
                        if not np.allclose(y2, mod, rtol=0, atol=1e-9 * scale):
                            ctx.disagree(f'{direction}_{level}_data {kind}', tc, y2[:4].tolist(), mod[:4].tolist())
                        ctx.count(f'cfg:{kind}-as-documented')
                    elif kind == 'sum' and f_width == 1 and y2.shape == (n_out, n_in):
                        t = ask(ctx, f'c20.transfer sumbroadcast {n_in} {C.enc_list(rws, C.enc_list)} 1 {xs}')
                        mod = np.array([float(t.rat()) for _ in range(n_out * n_in)]).reshape(n_out, n_in)
                        ctx.count('cfg:sum-broadcast(F12 unrepaired)' if np.allclose(y2, mod, rtol=0, atol=1e-9 * scale) else 'cfg:sum-unknown')
                ctx.case(('transfer', MG.enc_mesh(MG.from_json(case['mesh'])), repr(sorted(case['params'].items())), level, direction, kind, knn, f_width),
                         sample={'kind': 'transfer', 'level': level, 'direction': direction, 'transfer_kind': kind, 'knn': knn,
                                 'matrix_shape': [M, N], 'width': f_width}, nontrivial=True)
                ctx.count(f'transfer:{level}:{direction}:{kind}')


# ---------------------------------------------------------------- entry points

def f12_volume_case():
    """the probe of DESIGN section 5 (F12): sheared 3x3x3 tet brick, cos_thresh = 0.5, dist_thresh = 0"""
    pts, el = {}, []

    def idx(x, y, z):
        return x + 4 * (y + 4 * z)
    for z in range(4):
        for y in range(4):
            for x in range(4):
                pts[idx(x, y, z)] = (F(x) + F(y, 2), F(y) + F(z, 4), F(z))
    for z in range(3):
        for y in range(3):
            for x in range(3):
                c = [idx(x, y, z), idx(x + 1, y, z), idx(x + 1, y + 1, z), idx(x, y + 1, z),
                     idx(x, y, z + 1), idx(x + 1, y, z + 1), idx(x + 1, y + 1, z + 1), idx(x, y + 1, z + 1)]
                el += [[c[i] for i in t] for t in MG.KUHN]
    nodes = [(k + 1, pts[k]) for k in sorted(pts)]
    blocks = {'tet': [(e + 1, [n + 1 for n in c]) for e, c in enumerate(el)]}
    m = {'kind': 'tet', 'order': 'asc', 'id_style': 'dense', 'nodes': nodes, 'blocks': blocks}
    for e, c in blocks['tet']:
        if MG.signed('tet', [pts[n - 1] for n in c]) < 0:
            c[1], c[2] = c[2], c[1]
    return m, {'elem_num': 3, 'cos_thresh': 0.5, 'dist_thresh': 0.0, 'knn': 2}


def run(ctx):
    import femio  # noqa
    n_comp = ctx.n(80, 5000)
    n_transfer = ctx.n(14, 400)
    n_merge = ctx.n(14, 400)
    for name, obj in C.corpus_cases(PROP):
        r = replay(ctx, {'input': obj.get('input', obj)})
        ctx.count('corpus:' + ('fails' if r.get('fails') else 'passes'))
    # the design-phase probe first (known shape of the volume finding)
    m, params = f12_volume_case()
    compress_case(ctx, m, params, 'F12-probe')
    done_t = 0
    for i in range(n_comp):
        m, params = gen_case(ctx.rng, i)
        r = compress_case(ctx, m, params)
        if r is not None and done_t < n_transfer and i % 3 == 0:
            mc, poly, case = r
            transfer_case(ctx, mc, poly, case, params['knn'], 1 if done_t % 3 else ctx.rng.choice([2, 3]))
            done_t += 1
    for i in range(n_merge):
        m, _ = gen_case(ctx.rng, i)
        n = sum(len(b) for b in m['blocks'].values())
        merge_case(ctx, m, ctx.rng.choice([2, 3, 6, max(2, n // 2), n]))
    # which configuration of the 'sum' transfer does the tree implement (Cfg pattern, DESIGN section 5 F12)?
    doc, bro = ctx.dist.get('cfg:sum-as-documented', 0), ctx.dist.get('cfg:sum-broadcast(F12 unrepaired)', 0)
    ctx.extra['cfg_detected'] = ('sum transfer as documented (theorems C20_sum_total / _back apply)' if doc and not bro else
                                 'sum transfer broadcasts (N,f)/(1,N): F12 unrepaired (C20_sum_broadcast_counterexample)' if bro
                                 else 'undetermined')


def replay(ctx, obj):
    case = obj['input']
    before = len(ctx.failures)
    m = MG.from_json(case['mesh'])
    if case.get('kind') == 'merge':
        merge_case(ctx, m, case['K'])
    else:
        r = compress_case(ctx, m, case['params'], 'replay')
        if r is not None and 'knn' in case and 'level' in case:
            mc, poly, c2 = r
            transfer_case(ctx, mc, poly, c2, case['knn'], case.get('width', 1))
    new = ctx.failures[before:]
    want = None
    if 'transfer_kind' in case:
        want = 'transfer:' + case['transfer_kind']
    sel = [f for f in new if want is None or f['signature'].startswith(want)] or new
    return {'fails': bool(sel), 'failures': [{'signature': f['signature'], 'what': f['what']} for f in sel[:8]],
            'disagreements_with_model': ctx.disagreements[-3:]}
