"""C02 - FrontISTR result files: every value lands on its id, variable, component, step (DESIGN.md section 4, C02).

Tie T: the header constants of `_split_series` (3 / 11 / 'TOTALTIME') are tabulated into Gen/Tables.lean and the
theorem `C02_header_constants` compares them with the model's.
Tie D: random result data -> the *model* renders the .res text (both header layouts, arbitrary wrap widths) ->
the harness writes it with a hand-written .msh into ctx.tmp -> real femio reads single steps
(`read_files`), the directory (`read_directory`, latest step) and the time series; the id-keyed tables are compared
with (a) the generating data, (b) the model reader `c02.parse` / `c02.readdir` run on the same text.
The model side is character level: `c02.render` returns the characters of the whole file (`fileText`), `c02.parse` /
`c02.readdir` take characters (`readResText` / `lexFile`: lines between newlines, Python-whitespace lexer) - the
functions of `C02_parse_render_chars`, whose Boolean hypotheses the driver evaluates on every case.
Directory level (round 5): the files of a directory are those a solver run leaves behind - the result files need not be
named after the mesh (hecmw_ctrl.dat binds any names), a control file may sit under a third name, logs / restart /
visualisation files lie next to them; the model selects the result files from the listing (`c02.find` = `findRes`,
theorems C02_res_glob_any_stem / _listing / C02_res_file_name) and is held to glob and to the files written.
Variable names are data: any blank-free token that starts with a letter (the solver's shell results NodalSTRESS+ /
NodalSTRESS- / ElementalSTRAIN+, names with other symbols, numeral-like names), in every position of both lists.
Oracle: the property on the real API only (value-by-id equality, series = stack of the single-step readings in
ascending step order, no series = largest step).
"""
import glob
import math
import os
import re
import struct
from pathlib import Path

import numpy as np

from . import common as C
from . import meshgen as G

PROP = 'C02'
LEAN_MODULES = ['Femio.Props.C02']
THEOREMS = ['C02_parse_render', 'C02_split_point', 'C02_split_point_nodal_only', 'C02_columns', 'C02_rebinding',
            'C02_rebinding_ids', 'C02_steps', 'C02_steps_latest', 'C02_step_of_name', 'C02_timeseries_is_stack',
            'C02_stack_spec', 'C02_timeseries_by_id', 'C02_latest_is_single', 'C02_header_constants',
            'C02_singleton_series_counterexample_upstream', 'C02_lex_print_line', 'C02_parse_render_lines',
            'C02_parse_render_chars', 'C02_single_chars', 'C02_res_glob_any_stem', 'C02_res_glob_listing',
            'C02_res_file_name']
PARTIAL = [
    'C02_parse_render_chars: character level for one result file (printer, newline / whitespace lexer, token classes); '
    'line splitting models StringSeries.read_file as "split at newlines, skip empty lines" (pandas read_csv quoting / '
    'carriage returns not modelled); the step-selection / time-series theorems stay on lexed token files (they are '
    'parametric in the files\' token lines, to which the character-level theorem reduces each file)',
    'C02_timeseries_by_id: the id-keyed form needs every step to list the entities in the same order (the real code '
    'stacks positionally under the ids of the first step); stated as an explicit hypothesis',
]
RULE = ('random mesh (uniform or 2-3 mixed FrontISTR element types, arbitrary ids, storage order asc/desc/shuffled, every '
        'node referenced; also tet+tet2 / hex+hex2 / line+line2 in one mesh) x 1-5 nodal and 0-4 elemental variables with '
        'component counts 1-9 x variable names (identifiers | the solver\'s shell names base+ / base- next to bare bases | '
        'names with other non-word characters after the first letter | numeral-like names such as E+01 | non-word names '
        'between two plain ones; first cases of every run force each style) x value table of arbitrary '
        'finite float64 printed with %.16E x header layout old/2.0 x wrap widths of count and value lines 1-10 x row order '
        'of the result file (mesh order / ascending / shuffled) x a set of 1-4 step numbers with 1-7 digits (sets straddling '
        'the digit-count boundaries 9|10 … 99999|100000 in every run) x file stem / directory / rank with and without '
        'digits x directory layout (result files named after the mesh or differently, control file absent / named after '
        'the mesh / after the results / own name, other files a solver run leaves behind: logs, restart, visualisation, '
        'hecmw_ctrl.dat; the model selects the result files from the listing: findRes) x reading with the default stem '
        '(and, when all files share one stem, also with stem= given); the model renders the text; '
        'a case is non-trivial when the mesh has >= 2 elements and >= 2 variables or wrapped lines; distinct = distinct '
        '(mesh, variables, wraps, layout, steps)')
ASSUMPTIONS = [
    'the layout of solver-written .res files is a hand specification (renderFile): single-blank separated tokens, '
    'values in E-notation, an id line then the value lines per entity, at least one nodal variable',
    'variable names are blank-free tokens that start with a letter (the reader recognises name lines by their first '
    'character; any other printable ASCII character except @ and " may follow: NodalSTRESS+, E+01, a.b(c)), are distinct '
    'inside a section, are not pandas NA spellings (NA, NULL, NaN, nan, None, null, N/A, n/a), do not contain TOTALTIME, '
    'are not the reserved name NODE and are not alias keys of femio.config.DICT_ALIASES; names with interior blanks '
    '(never written by the solver) are not generated',
    'a directory holds one mesh file, at most one control file (a minimal static one) and the result files of ONE '
    'analysis (one stem, one rank); no other file of the directory matches *.msh, *.cnt or *.res.*',
    'every node of the mesh is referenced by an element (the reader removes unreferenced nodes before it reads the '
    'result; meshes with unreferenced nodes are a separate labelled stream, never reported as violations)',
    'all steps of a series list the same variables and the entities in the same order (as a solver does)',
    'step numbers are distinct (file names differ)',
]
TRUSTED = ['C02: the hand-written .msh writer of the harness (checked by comparing the ids femio reads back)',
           'C02: correct rounding of Python float() / "%.16E" (17 significant digits identify a binary64 value)']

CODE = {'line': 301, 'line2': 302, 'tri': 731, 'quad': 741, 'tet': 341, 'tet2': 342, 'prism': 351, 'hex': 361, 'hex2': 362}
NA = {'NA', 'NULL', 'NaN', 'nan', 'None', 'null', 'N', 'NODE', 'N/A', 'n/a'}
NAMES_N = ['DISPLACEMENT', 'REACTION_FORCE', 'NodalSTRESS', 'NodalSTRAIN', 'NodalMISES', 'TEMPERATURE', 'VELOCITY', 'E12',
           'T2', 'u']
NAMES_E = ['ElementalSTRESS', 'ElementalSTRAIN', 'ElementalMISES', 'ESTRESS', 'E3', 'GaussSTRESS', 'q']
ALNUM = 'ABCDEFGHIJKLMNOPQRSTUVWXYZabcdefghijklmnopqrstuvwxyz0123456789_'
# characters a variable name may contain after its first letter besides [A-Za-z0-9_] (a name is a blank-free token that
# starts with a letter: `wordOKB` of the model; FrontISTR itself writes NodalSTRESS+ / NodalSTRESS- / ElementalSTRAIN+ …
# for the two surfaces of shell elements).  '@' (the separator read_file hands to pandas) and '"' (pandas quoting, not
# modelled: PARTIAL) are left out.
SYMBOLS = "+-+-.#()/:%&=,;[]<>!?|~^$'`{}*\\"
# names that look like pieces of numerals / E-notation but start with a letter
NUMLIKE = ['E+01', 'E-05', 'E+100', 'e-3', 'E1', 'D+00', 'Inf', 'Infinity', 'inf', 'E+', 'E-', 'x1.5E+03', 'E+01E-02']
NAME_STYLES = ['plain', 'plain', 'plain', 'shell', 'shell', 'symbols', 'mixed', 'mixed', 'sandwich']


# ------------------------------------------------------------------ generators

def bits(x):
    x = float(x)
    return 'nan' if x != x else struct.pack('<d', x).hex()


# structured special values (class H): three-digit decimal exponents on both sides, the two-/three-digit boundaries
# 1E+99 | 1E+100 and 1E-99 | 1E-100, denormals (exponents -308 … -324), signed zeros, extremes
SPECIAL = [0.0, -0.0, 5e-324, -2.2250738585072014e-308, 1.7976931348623157e308, 1e300, -1e-300, 1e-5, 123456789.12345679,
           -1.0, 0.1, 1.5e-100, -4.0e+100, 6.9316543871775429e-310, -6.93e-310, 2.5e+120, -3.2499999999999997e-123,
           9.9999999999999997e+99, 1e+100, -1e+100, 1e-99, 9.9999999999999994e-100, -1e-100, 1e+99, 1.2345678901234567e-101,
           -9.9999999999999998e+149, 7.7499999999999994e-105, 4.9e-320, -1e-310]


def rand_float(rnd):
    k = rnd.random()
    if k < .2:
        return float(rnd.randint(-50, 50))
    if k < .4:
        return rnd.randint(-10**6, 10**6) / 2**rnd.randint(0, 20)
    if k < .6:
        return float('%.12e' % rnd.uniform(-1e5, 1e5))
    if k < .72:
        return rnd.choice(SPECIAL)
    while True:
        x = struct.unpack('<d', struct.pack('<Q', rnd.getrandbits(64)))[0]
        if x == x and not math.isinf(x):
            return x


def tok(x):
    return '%.16E' % x


def is_alias(n):
    """femio renames a variable whose name is one of its alias keys (config.DICT_ALIASES, e.g. 'vf' -> 'VF',
    'disp' -> 'DISPLACEMENT') when it is stored: such reserved names are not arbitrary user names"""
    from femio import config
    return config.DICT_ALIASES.get(n, n) != n


def name_ok(n, out):
    return not (n in out or n in NA or 'TOTALTIME' in n or is_alias(n))


def rand_word(rnd, symbols):
    """a letter followed by 0-11 characters: [A-Za-z0-9_] only (identifier) or also SYMBOLS"""
    tail = ALNUM + SYMBOLS * 2 if symbols else ALNUM
    return rnd.choice(ALNUM[:52]) + ''.join(rnd.choice(tail) for _ in range(rnd.randint(1 if symbols else 0, 11)))


def rand_names(rnd, k, pool, style='plain'):
    """k distinct variable names.  style: 'plain' identifiers only (pool names / random identifiers); 'shell' the solver's
    names for shell results: base+ / base- pairs (every name after an optional plain first one ends in a sign, a base may
    also occur bare: names that are prefixes of each other); 'symbols' every name contains a non-word character;
    'mixed' each name independently plain / signed / with symbols / numeral-like; 'sandwich' (k >= 3) non-word names
    between a plain first and a plain last name"""
    out = []
    if style == 'sandwich':
        inner = rand_names(rnd, max(k - 2, 0), pool, rnd.choice(['shell', 'symbols']))
        ends = []
        while len(ends) < min(k, 2):
            n = rnd.choice(pool) if rnd.random() < .6 else rand_word(rnd, False)
            if name_ok(n, ends + inner):
                ends.append(n)
        return (ends[:1] + inner + ends[1:])[:k]
    if style == 'shell':
        if rnd.random() < .5:
            out.append(rnd.choice(pool))
        bases = list(pool)
        rnd.shuffle(bases)
        for b in bases:
            for sgn in rnd.choice(['+-', '+-', '-+', '+', '-']):
                if len(out) < k and name_ok(b + sgn, out):
                    out.append(b + sgn)
        if out and rnd.random() < .3:
            rnd.shuffle(out)
    while len(out) < k:
        kind = {'plain': 'plain', 'symbols': 'symbols', 'shell': 'signed'}.get(style) or \
            rnd.choice(['plain', 'signed', 'symbols', 'symbols', 'numlike'])
        if kind == 'plain':
            n = rnd.choice(pool) if rnd.random() < .6 else rand_word(rnd, False)
        elif kind == 'signed':
            n = (rnd.choice(pool) if rnd.random() < .7 else rand_word(rnd, False)) + rnd.choice('+-')
        elif kind == 'numlike':
            n = rnd.choice(NUMLIKE)
        else:
            n = rand_word(rnd, True)
            if re.fullmatch(r'\w+', n):
                continue
        if name_ok(n, out):
            out.append(n)
    return out[:k]


def is_plain(n):
    return re.fullmatch(r'[A-Za-z]\w*', n) is not None


def msh_text(m):
    L = ['!HEADER', ' generated by the C02 harness', '!NODE']
    for i, p in m['nodes']:
        L.append('%d, %s, %s, %s' % ((i,) + tuple(repr(float(v)) for v in p)))
    for t, b in m['blocks'].items():
        L.append('!ELEMENT, TYPE=%d' % CODE[t])
        for e, c in b:
            L.append(', '.join(str(x) for x in [e] + list(c)))
    L.append('!END')
    return '\n'.join(L) + '\n'


def gen_mesh(rnd, keep_unref=False):
    mixed = rnd.random() < .6
    types = rnd.sample(list(CODE), rnd.randint(2, 3)) if mixed else [rnd.choice(list(CODE))]
    if mixed and rnd.random() < .15:
        # first- and second-order elements of one shape in ONE mesh (their element ids interleave in the result file)
        types = list(rnd.choice([('tet', 'tet2'), ('hex', 'hex2'), ('line', 'line2'), ('tet2', 'tet'), ('hex2', 'hex', 'prism')]))
    m = G.gen_combinatorial(rnd, types=types, max_elems=max(len(types), rnd.choice([2, 4, 8, 12])), unref=keep_unref)
    used = {n for b in m['blocks'].values() for _, c in b for n in c}
    if not keep_unref:
        m['nodes'] = [(i, p) for i, p in m['nodes'] if i in used]
    m['n_unref'] = len([1 for i, _ in m['nodes'] if i not in used])
    return m


def order(rnd, ids):
    k = rnd.choice(['mesh', 'asc', 'shuf'])
    ids = list(ids)
    if k == 'asc':
        ids.sort()
    elif k == 'shuf':
        rnd.shuffle(ids)
    return ids, k


STEP_POOLS = [[1], [0], [7], [1, 2], [2, 10], [9, 10, 11], [1, 2, 3, 4], [99, 100], [5, 50, 500], [3, 20, 100, 1000],
              [0, 1], [10, 9], [12], [100, 20, 3]]
# step sets that straddle a digit-count boundary (9|10, 99|100, 999|1000, 9999|10000, 99999|100000): numeric order differs
# there from every text-like order (lexicographic, zero padding to a fixed width, "natural" keys)
WIDE_POOLS = [[9000, 9999, 10000, 12000], [9999, 10000], [999, 1000], [99999, 100000], [5, 123456], [1000, 20000, 300],
              [100000, 99999, 7], [9, 10, 100000], [12000, 9000], [250000, 30000, 4000, 500], [99, 100, 1000, 10000],
              [1234567, 999999, 20], [10000, 2000], [0, 100000, 99]]
# file stems / directory names / process ranks with digits in them (the step is the trailing number of the file name only)
STEMS = ['m', 'm', 'job2', 'run_0012', 'a10b9', 'mesh.2', '7', 'case3.v10']
DIRS = ['c02', 'c02', 'res_2024', 'step10', '0009']
RANKS = [0, 0, 0, 1, 12, 10000]


# result files named differently from the mesh (the names are free: hecmw_ctrl.dat binds fstrMSH / fstrCNT / fstrRES to
# any file names), an optional control file under the mesh's, the result's or a third name, and the other files a solver
# run leaves in its directory (none of them is a *.msh, *.cnt or *.res.* file)
RES_STEMS = ['job', 'result', 'out2', 'm_res', 'run.10', 'mesh', 'm', 'model.static', 'a10b9', 'res', '2024']
CNT_STEMS = ['ctrl', 'analysis', 'job', 'c3']
CNT_TEXT = '!VERSION\n 3\n!SOLUTION, TYPE=STATIC\n!END\n'
EXTRA_FILES = ['hecmw_ctrl.dat', 'FSTR.msg', 'FSTR.sta', '0.log', 'FSTR.dbg.0', 'hecmw_vis.ini', '{res}_vis_psf.0001.inp',
               '{res}.restart.0', 'FSTR.restart_0.res', '{mesh}.msh.bak', '{res}.log', 'readme.txt', '{mesh}_msh.txt',
               'res.0.1', '{mesh}.res', 'notes.cnt.txt']
DIR_STYLES = ['same', 'same', 'other', 'other-cnt-mesh', 'other-cnt-res', 'other-cnt-own', 'same-cnt', 'same-cnt-own']


def gen_dir(rnd, stem, style=None):
    """-> (res_stem, cnt file name | None, extra file names)"""
    style = style or rnd.choice(DIR_STYLES)
    res_stem = stem
    if style.startswith('other'):
        res_stem = rnd.choice([x for x in RES_STEMS if x != stem] + [stem + '_out', stem + '.1', 'x' + stem])
    cnt = None
    if 'cnt' in style:
        cnt = {'mesh': stem, 'res': res_stem}.get(style.rsplit('-', 1)[1]) or rnd.choice([x for x in CNT_STEMS if x != stem])
        if style == 'same-cnt':
            cnt = stem
        cnt += '.cnt'
    extras = []
    if rnd.random() < .6:
        extras = sorted({x.format(res=res_stem, mesh=stem) for x in rnd.sample(EXTRA_FILES, rnd.randint(1, 5))})
    return style, res_stem, cnt, extras


FIRST_DIRS = ['other', 'same', 'other-cnt-mesh', 'same-cnt', 'other-cnt-own', 'other', 'same', 'other-cnt-res', 'same-cnt-own',
              'other', 'same', 'other']
FIRST_NAMES = ['plain', 'shell', 'mixed', 'symbols', 'sandwich', 'plain', 'mixed', 'shell', 'symbols', 'sandwich', 'shell', 'plain']
FIRST_STEPS = [[3], [1, 2], [2, 10], [7], [9, 10, 11], [1], [100, 20, 3], [12], [9000, 9999, 10000, 12000], [999, 1000],
               [99999, 100000], [10000, 2000]]


def rand_steps(rnd):
    """2-4 distinct step numbers of independent random digit counts 1-6 (boundary values 10^k, 10^k - 1 favoured)"""
    out = []
    n = rnd.randint(2, 4)
    while len(out) < n:
        nd = rnd.randint(1, 6)
        s = rnd.choice([10**(nd - 1), 10**nd - 1, rnd.randint(10**(nd - 1), 10**nd - 1)])
        if s not in out:
            out.append(s)
    return out


def res_name(case, s):
    """file name of the result of step s: <stem>.res.<rank>.<step> (older replay files: m.res.0.<step>)"""
    return f"{case.get('res_stem', case.get('stem', 'm'))}.res.{case.get('rank', 0)}.{s}"


def msh_name(case):
    return f"{case.get('stem', 'm')}.msh"


def gen_case(rnd, keep_unref=False, steps=None, name_style=None, dir_style=None):
    m = gen_mesh(rnd, keep_unref)
    nids = [i for i, _ in m['nodes']]
    eids = [e for b in m['blocks'].values() for e, _ in b]
    n_nv = rnd.choice([1, 1, 2, 3, 4, 5])
    n_ev = rnd.choice([0, 0, 1, 2, 3, 4])
    widths = [1, 1, 3, 3, 6, 7, 2, 4, 5, 8, 9]
    name_style = name_style or rnd.choice(NAME_STYLES)
    if name_style != 'plain' and (name_style in ('shell', 'sandwich') or rnd.random() < .4):
        # a file with nodal AND elemental variables, several of each (the solver's shell output has 8 + 6)
        n_nv, n_ev = max(n_nv, rnd.choice([2, 2, 3])), max(n_ev, rnd.choice([1, 1, 2]))
    if name_style == 'sandwich':
        n_nv, n_ev = max(n_nv, 3), rnd.choice([0, n_ev, 3])
    nv = [[n, rnd.choice(widths)] for n in rand_names(rnd, n_nv, NAMES_N, name_style)]
    ev = [[n, rnd.choice(widths)] for n in rand_names(rnd, n_ev, NAMES_E + NAMES_N if name_style != 'shell' else NAMES_E[:4],
                                                      name_style)]
    n_order, n_kind = order(rnd, nids)
    e_order, e_kind = order(rnd, eids)
    k = rnd.random()
    steps = list(steps or (rnd.choice(WIDE_POOLS) if k < .3 else rand_steps(rnd) if k < .45 else rnd.choice(STEP_POOLS)))
    rnd.shuffle(steps)
    plain = rnd.random() < .5
    stem, dirname, rank = ('m', 'c02', 0) if plain else (rnd.choice(STEMS), rnd.choice(DIRS), rnd.choice(RANKS))
    dir_style, res_stem, cnt, extras = gen_dir(rnd, stem, dir_style)
    sw_n = sum(w for _, w in nv)
    sw_e = sum(w for _, w in ev)
    data = {}
    for s in steps:
        data[str(s)] = {'nodal': [[tok(rand_float(rnd)) for _ in range(sw_n)] for _ in n_order],
                        'elem': [[tok(rand_float(rnd)) for _ in range(sw_e)] for _ in e_order]}
    return {'mesh': G.to_json(m), 'layout': rnd.choice(['old', 'v2']), 'trail': rnd.random() < .7,
            'wraps': [rnd.choice([1, 2, 3, 4, 10]), rnd.choice([1, 2, 3, 5, 5, 7, 10]), rnd.choice([1, 2, 10]),
                      rnd.choice([1, 2, 3, 5, 5, 10])],
            'nodal_vars': nv, 'elem_vars': ev, 'nodal_order': n_order, 'elem_order': e_order,
            'order_kinds': [n_kind, e_kind], 'steps': steps, 'data': data, 'n_unref': m['n_unref'],
            'stem': stem, 'dir': dirname, 'rank': rank, 'res_stem': res_stem, 'cnt': cnt, 'extras': extras,
            'name_style': name_style, 'dir_style': dir_style,
            'explicit_stem': res_stem == stem and rnd.random() < .25}


# ------------------------------------------------------------------ protocol

def enc_sec(vars_, ids, rows):
    t = [str(len(vars_))]
    for n, w in vars_:
        t += [C.esc(n), str(w)]
    t.append(str(len(ids)))
    for i, r in zip(ids, rows):
        t += [str(i), str(len(r))] + r
    return ' '.join(t)


def as_text(t):
    """the characters of a result file (older replay files carry a list of lines)"""
    return t if isinstance(t, str) else '\n'.join(t) + '\n'


def enc_text(text):
    return C.esc(as_text(text))


def render_line(case, step):
    d = case['data'][str(step)]
    n_el = len(case['elem_order'])
    wc_n, wv_n, wc_e, wv_e = case['wraps']
    t = ['c02.render', '1' if case['layout'] == 'v2' else '0', str(int(case['trail'])), C.esc('static_result'),
         tok(float(step)), str(n_el), str(wc_n), str(wv_n), str(wc_e), str(wv_e),
         enc_sec(case['nodal_vars'], case['nodal_order'], d['nodal'])]
    if case['elem_vars']:
        t += ['1', enc_sec(case['elem_vars'], case['elem_order'], d['elem'])]
    else:
        t.append('0')
    return ' '.join(t)


def dec_text(rep):
    """-> (Boolean hypotheses of C02_parse_render_chars hold on the input, characters of the file)"""
    t = C.Toks(rep)
    if t.tok() != 'ok':
        raise RuntimeError('driver: ' + rep[:200])
    hyp = t.nat()
    text = C.unesc(t.tok())
    assert t.done()
    return bool(hyp), text


def dec_sec(t):
    vars_ = t.lst(lambda: [C.unesc(t.tok()), t.nat()])
    rows = t.lst(lambda: (t.nat(), t.lst(t.tok)))
    return vars_, [i for i, _ in rows], [r for _, r in rows]


def dec_dir(rep):
    """-> None (raises) | {'steps': [...], 'nodal': {name: (ids, [step][row][bits])}, 'elem': …}"""
    t = C.Toks(rep)
    if t.tok() != 'ok':
        raise RuntimeError('driver: ' + rep[:200])
    if t.nat() == 0:
        return None
    steps = t.lst(t.nat)

    def sattr():
        name = C.unesc(t.tok())
        ids = t.lst(t.nat)
        data = t.lst(lambda: t.lst(lambda: t.lst(lambda: bits(float(t.tok())))))
        return name, (ids, data)
    nodal = dict(t.lst(sattr))
    elem = dict(t.lst(sattr))
    assert t.done()
    return {'steps': steps, 'nodal': nodal, 'elem': elem}


def type_ids(case):
    return [(G.ELEMENT_TYPES.index(t), [e for e, _ in b]) for t, b in case['mesh']['blocks'].items()]


def readdir_line(case, wrap, ts, files):
    """files: [(name, lines)] in glob order"""
    t = ['c02.readdir', str(int(wrap)), str(int(ts)), str(len(case['nodal_order'])), str(len(case['elem_order'])),
         C.enc_list(type_ids(case), lambda b: f'{b[0]} {C.enc_list(b[1])}'),
         C.enc_list(files, lambda f: f'{C.esc(f[0])} {enc_text(f[1])}')]
    return ' '.join(t)


# ------------------------------------------------------------------ observation of the real implementation

def table(attr, series):
    """FEMAttribute / FEMElementalAttribute -> (ids, [step][row][bits])"""
    ids = [int(i) for i in attr.ids]
    data = attr.data
    if not series:
        data = [data]
    return ids, [[[bits(x) for x in row] for row in step] for step in data]


def observe(fd, series):
    return {'steps': [int(s) for s in fd.settings.get('time_steps', [])] if series else None,
            'nodal': {k: table(v, series) for k, v in fd.nodal_data.items() if k != 'NODE'},
            'elem': {k: table(v, series) for k, v in fd.elemental_data.items()}}


def by_id(tab, k=0):
    ids, data = tab
    return {i: tuple(r) for i, r in zip(ids, data[k])}


def real(f, *a, **k):
    import warnings
    try:
        with warnings.catch_warnings():
            warnings.simplefilter('ignore')
            return G.quiet(f, *a, **k), None
    except Exception as e:  # noqa
        return None, f'{type(e).__name__}: {str(e)[:160]}'


def expected_tables(case, step):
    """generating data as {name: {id: (bits…)}} for nodal and elemental variables"""
    d = case['data'][str(step)]
    out = {}
    for key, vars_, ids, rows in (('nodal', case['nodal_vars'], case['nodal_order'], d['nodal']),
                                  ('elem', case['elem_vars'], case['elem_order'], d['elem'])):
        tabs = {}
        off = 0
        for n, w in vars_:
            tabs[n] = {i: tuple(bits(float(x)) for x in r[off:off + w]) for i, r in zip(ids, rows)}
            off += w
        out[key] = tabs
    return out


def write_files(ctx, case, texts):
    import shutil
    for old in set(DIRS):
        if (ctx.tmp / old).exists():
            shutil.rmtree(ctx.tmp / old)
    d = ctx.tmp / case.get('dir', 'c02')
    d.mkdir()
    m = G.from_json(case['mesh'])
    (d / msh_name(case)).write_text(msh_text(m))
    for s, text in texts.items():
        (d / res_name(case, s)).write_text(as_text(text))
    if case.get('cnt'):
        (d / case['cnt']).write_text(CNT_TEXT)
    for x in case.get('extras', []):
        (d / x).write_text(' log of the C02 harness\n 1 2 3\n')
    return d


def size_of(case):
    if 'large' in case:
        return (10**6, case['large']['n_lines'], 0)
    return (len(case['steps']), len(case['nodal_order']) + len(case['elem_order']),
            len(case['nodal_vars']) + len(case['elem_vars']))


def brief(case):
    return {'mesh': {'types': list(case['mesh']['blocks']), 'n_nodes': len(case['nodal_order']),
                     'n_elems': len(case['elem_order']), 'order': case['mesh'].get('order')},
            'layout': case['layout'], 'wraps': case['wraps'], 'nodal_vars': case['nodal_vars'],
            'elem_vars': case['elem_vars'], 'row_order': case['order_kinds'], 'steps': case['steps'],
            'names': [case.get('dir', 'c02'), msh_name(case), res_name(case, '<step>')] + [x for x in [case.get('cnt')] if x]
            + case.get('extras', [])}


def oracle(case, d, report, check_mesh=True):
    """the property on the real API only.  `report(signature, what, observed)`.  Returns the observations."""
    from femio import FEMData
    lay = case['layout']
    steps = sorted(case['steps'])
    singles = {}
    for s in steps:
        fd, err = real(FEMData.read_files, 'fistr', [str(d / msh_name(case)), str(d / res_name(case, s))])
        if err:
            report(f'single-step-read-raises:{lay}', f'read_files of step {s} raises {err}', {'error': err})
            singles[s] = None
            continue
        got_nodes = sorted(int(i) for i in fd.nodes.ids)
        if check_mesh and got_nodes != sorted(case['nodal_order']):
            raise RuntimeError('harness: the .msh was not read back with the generated node ids')
        obs = observe(fd, False)
        singles[s] = obs
        exp = expected_tables(case, s)
        for key in ('nodal', 'elem'):
            if sorted(obs[key]) != sorted(exp[key]):
                report(f'variables-differ:{key}:{lay}', f'step {s}: variables read {sorted(obs[key])} != written '
                       f'{sorted(exp[key])}', {'read': sorted(obs[key]), 'written': sorted(exp[key])})
                continue
            for n, tab in exp[key].items():
                got = by_id(obs[key][n])
                if got != tab:
                    bad = [i for i in tab if got.get(i) != tab[i]][:3]
                    report(f'misattributed:{key}:{lay}', f'step {s}, {key} variable {n!r}: value read under id {bad[0]} '
                           f'is not the value written for it', {'variable': n, 'ids': bad,
                                                                'read': [got.get(i) for i in bad],
                                                                'written': [tab[i] for i in bad]})
    # latest step (default stem; for some directories whose files all carry one stem also with that stem given explicitly)
    latest = None
    for tag, kw in [('', {})] + ([(':explicit-stem', {'stem': case['stem']})] if case.get('explicit_stem') else []):
        fd, err = real(FEMData.read_directory, 'fistr', d, read_npy=False, save=False, **kw)
        if err:
            report(f'latest-read-raises:{lay}{tag}', f'read_directory({kw}) raises {err}', {'error': err})
            continue
        got = observe(fd, False)
        if not tag:
            latest = got
        ref = singles[steps[-1]]
        if ref is not None:
            for key in ('nodal', 'elem'):
                a = {n: by_id(t) for n, t in got[key].items()}
                b = {n: by_id(t) for n, t in ref[key].items()}
                if a != b:
                    which = [s for s in steps if singles[s] and all(
                        {n: by_id(t) for n, t in singles[s][k2].items()} == {n: by_id(t) for n, t in got[k2].items()}
                        for k2 in ('nodal', 'elem'))]
                    report('latest-step-wrong' + tag, f'read_directory({kw}) without time series over steps {steps} in a '
                           f'directory holding {sorted(p.name for p in d.iterdir())} does not return step {steps[-1]}'
                           + (f' but step {which[0]}' if which else ' (variables read: ' f'{sorted(a)})'),
                           {'steps': steps, 'returned_step': which[:1], 'variables_read': sorted(a)})
                    break
    # series
    fd, err = real(FEMData.read_directory, 'fistr', d, read_npy=False, save=False, time_series=True)
    series = None
    if err:
        sig = 'series-singleton-raises' if len(steps) == 1 and singles[steps[0]] is not None else f'series-read-raises:{lay}'
        report(sig, f'read_directory(time_series=True) over steps {steps} raises {err}', {'error': err, 'steps': steps})
        series = {'raises': err}
    else:
        # the series of every variable is the STACK of the single-step readings: an array (n_step, n_row, width) - checked
        # before anything is indexed (a reader that returns a plain (n_row, width) table for a one-step series must be
        # reported, not crash the harness)
        bad_shape = []
        for key, tab in (('nodal', fd.nodal_data), ('elem', fd.elemental_data)):
            for n, v in tab.items():
                if n == 'NODE':
                    continue
                blocks = list(v.values()) if hasattr(v, 'values') and not hasattr(v, 'time_series') else [v]
                for b in blocks:
                    sh = np.shape(np.asarray(b.data, dtype=object)) if getattr(b.data, 'dtype', None) == object else np.shape(b.data)
                    if len(sh) != 3 or sh[0] != len(steps):
                        bad_shape.append((key, n, list(sh)))
        if bad_shape:
            report('series-not-stack:shape', f'read_directory(time_series=True) over steps {steps}: variable {bad_shape[0][1]!r} '
                   f'({bad_shape[0][0]}) has shape {bad_shape[0][2]}, not ({len(steps)}, rows, width)',
                   {'steps': steps, 'bad': bad_shape[:5]})
            return singles, latest, {'raises': 'bad-shape'}
        series = observe(fd, True)
        if series['steps'] != steps:
            report('series-steps-not-ascending', f"settings['time_steps'] = {series['steps']} for steps {steps}",
                   {'time_steps': series['steps']})
        for key in ('nodal', 'elem'):
            done = False
            for k, s in enumerate(steps):
                ref = singles[s]
                if ref is None or done:
                    continue
                if sorted(series[key]) != sorted(ref[key]):
                    report(f'series-not-stack:{key}', f'variables of the series {sorted(series[key])} != single step '
                           f'{sorted(ref[key])}', {})
                    done = True
                    continue
                for n, tab in ref[key].items():
                    ids, data = series[key][n]
                    if len(data) != len(steps) or by_id((ids, data), k) != by_id(tab):
                        report(f'series-not-stack:{key}', f'{key} variable {n!r}: slice {k} of the series is not the '
                               f'single-step reading of step {s} (ascending order)', {'variable': n, 'slice': k, 'step': s,
                                                                                     'n_slices': len(data)})
                        done = True
                        break
    return singles, latest, series


# ------------------------------------------------------------------ run

def run_case(ctx, case, cfg_mismatch, stream='main'):
    main = stream == 'main'
    steps = sorted(case['steps'])
    # 1. the model renders the files
    if ctx.driver is not None:
        rendered = {s: dec_text(r) for s, r in zip(case['steps'], ctx.driver.ask_many(
            [render_line(case, s) for s in case['steps']]))}
        texts = {s: t for s, (_, t) in rendered.items()}
        case['files'] = {str(s): t for s, t in texts.items()}
        hyp = all(h for h, _ in rendered.values())
        ctx.count('hypotheses of C02_parse_render_chars hold (fileOKB, hdrOKB): ' + ('yes' if hyp else 'NO'))
        if not hyp and main:
            ctx.disagree('generated case violates the Boolean hypotheses of C02_parse_render_chars', brief(case),
                         'in-quantifier input', 'fileOKB && hdrOKB = false')
        # the harness's own renderer (used for the LARGE files of the size-boundary stream, which are not pushed through
        # the line protocol) is held to the model's renderer, character by character, on every small file
        for s in case['steps']:
            ctx.count('fast renderer = model renderer (characters): ' + ('yes' if fast_render(case, s) == texts[s] else 'NO'))
            if fast_render(case, s) != texts[s]:
                ctx.disagree('harness fast renderer != model renderer', {**brief(case), 'step': s},
                             fast_render(case, s)[:300], texts[s][:300])
    else:
        texts = {int(s): t for s, t in case['files'].items()} if 'files' in case else None
        if texts is None:
            texts = {s: py_render(case, s) for s in case['steps']}
            case['files'] = {str(s): t for s, t in texts.items()}
    d = write_files(ctx, case, texts)

    def report(sig, what, observed):
        if main:
            small = {k: v for k, v in case.items()}
            ctx.fail(sig, what, small, observed)
        else:
            ctx.count(f'{stream}:{sig.split(":")[0]}')
    singles, latest, series = oracle(case, d, report, check_mesh=main)
    if ctx.driver is None:
        return
    # 2. model parser on the same text = generating data (executable instance of C02_parse_render)
    n_n, n_e = len(case['nodal_order']), len(case['elem_order'])
    reps = ctx.driver.ask_many([f'c02.parse {n_n} {n_e} {enc_text(texts[s])}' for s in case['steps']])
    for s, rep in zip(case['steps'], reps):
        t = C.Toks(rep)
        assert t.tok() == 'ok'
        dd = case['data'][str(s)]
        want = (case['nodal_vars'], case['nodal_order'], dd['nodal'],
                (case['elem_vars'], case['elem_order'], dd['elem']) if case['elem_vars'] else None)
        got = None
        if t.nat() == 1:
            nv, nids, nrows = dec_sec(t)
            e = dec_sec(t) if t.nat() == 1 else None
            got = (nv, nids, nrows, e)
        if main and got != want:
            ctx.disagree('model: parse(render(data)) != data', brief(case), None, str(got)[:300])
    if not main:
        return
    # 3. model reader vs real reader
    # the result files of the directory: the model's selection from the directory listing (`findRes`, the function of
    # C02_res_glob_any_stem / C02_res_glob_listing), held to Python's glob on the same directory
    listing = [e.name for e in os.scandir(d)]
    t = C.Toks(ctx.driver.ask('c02.find ' + C.enc_list(listing, C.esc)))
    assert t.tok() == 'ok'
    names = t.lst(lambda: C.unesc(t.tok()))
    globbed = [Path(p).name for p in glob.glob(str(d / '*.res.*'))]
    want = [res_name(case, s) for s in case['steps']]
    ctx.count('model findRes = glob(*.res.*) = the result files written: '
              + ('yes' if sorted(names) == sorted(globbed) == sorted(want) else 'NO'))
    if not sorted(names) == sorted(globbed) == sorted(want):
        ctx.disagree('result files of the directory: model findRes != glob != files written', brief(case),
                     {'glob': sorted(globbed), 'written': sorted(want)}, sorted(names))
        names = globbed
    files = [(n, texts[int(n.rsplit('.', 1)[1])]) for n in names]
    lines = [readdir_line(case, 1, 0, [(res_name(case, s), texts[s])]) for s in steps]
    lines += [readdir_line(case, 1, 0, files), readdir_line(case, 1, 1, files), readdir_line(case, 0, 1, files)]
    reps = [dec_dir(r) for r in ctx.driver.ask_many(lines)]

    def same(model, impl, series_):
        if impl is None or model is None:
            return (impl is None) == (model is None)
        if series_ and model['steps'] != impl['steps']:
            return False
        return model['nodal'] == impl['nodal'] and model['elem'] == impl['elem']
    for s, mrep in zip(steps, reps):
        if not same(mrep, singles[s], False):
            ctx.disagree('single step: model reader != femio', {**brief(case), 'step': s},
                         summarize(singles[s]), summarize(mrep))
    if not same(reps[len(steps)], latest, False):
        ctx.disagree('latest step: model read_directory != femio', brief(case), summarize(latest),
                     summarize(reps[len(steps)]))
    impl_series = None if (series is None or 'raises' in series) else series
    for name, mrep in (('fixed', reps[-2]), ('upstream', reps[-1])):
        if not same(mrep, impl_series, True):
            cfg_mismatch[name].append((brief(case), summarize(impl_series), summarize(mrep)))


def summarize(o):
    if o is None:
        return 'raises'
    return {'steps': o.get('steps'), 'nodal': {n: [t[0][:4], str(t[1])[:120]] for n, t in o['nodal'].items()},
            'elem': {n: [t[0][:4], str(t[1])[:120]] for n, t in o['elem'].items()}}


def py_render(case, step):
    """fallback renderer (only used when the Lean driver could not be built; mirrors Femio.C02.renderFile)"""
    d = case['data'][str(step)]
    tr = ' ' if case['trail'] else ''
    wc_n, wv_n, wc_e, wv_e = case['wraps']
    n_n, n_e = len(case['nodal_order']), len(case['elem_order'])
    if case['layout'] == 'v2':
        L = ['*fstrresult 2.0', '*comment', 'static_result', '*global', '1' + tr, '1' + tr, 'TOTALTIME', tok(float(step)) + tr,
             '*data']
    else:
        L = ['*fstrresult']
    L += [f'{n_n} {n_e}{tr}', f"{len(case['nodal_vars'])} {len(case['elem_vars'])}{tr}"]

    def sec(vars_, ids, rows, wc, wv):
        out = []
        ws = [str(w) for _, w in vars_]
        out += [' '.join(ws[i:i + wc]) + tr for i in range(0, len(ws), wc)]
        out += [n for n, _ in vars_]
        for i, r in zip(ids, rows):
            out.append(f'{i}{tr}')
            out += [' '.join(r[j:j + wv]) + tr for j in range(0, len(r), wv)]
        return out
    L += sec(case['nodal_vars'], case['nodal_order'], d['nodal'], wc_n, wv_n)
    if case['elem_vars']:
        L += sec(case['elem_vars'], case['elem_order'], d['elem'], wc_e, wv_e)
    return L


def fast_render(case, step):
    """the characters of the result file of `step`, rendered by the harness itself (same hand specification as
    Femio.C02.renderFile).  Used for the LARGE files, which are too slow to push through the line protocol; it is
    cross-checked character by character against the model's renderer on every small main-stream case of the same run."""
    return '\n'.join(py_render(case, step)) + '\n'


# ------------------------------------------------------------------ size boundaries (class G): large-but-cheap files
# One block (nodal or elemental) of a result file has MORE lines than a power-of-two block size b (2^16, 2^17 = 2 x 2^16)
# while its number of lines per record (1 id line + the wrapped value lines) does not divide b; the other block and the
# mesh stay small.  Everything is derived deterministically from the parameter dict (that is what the replay stores).

ARITY = {'line': 2, 'line2': 3, 'tri': 3, 'quad': 4, 'tet': 4, 'tet2': 10, 'prism': 6, 'hex': 8, 'hex2': 20}
# (values per line, values per record) by lines per record
STRIDE_SHAPES = {2: [(1, 1), (5, 3), (10, 9)], 3: [(1, 2), (2, 3), (2, 4), (5, 7), (5, 6), (3, 4)],
                 4: [(1, 3), (5, 13), (2, 6)], 5: [(1, 4), (2, 7), (5, 16), (5, 20)], 6: [(1, 5), (2, 9), (5, 21), (3, 13)],
                 7: [(1, 6), (2, 11), (2, 12), (5, 26)], 9: [(1, 8), (2, 15)]}


def gen_large(rnd, n_blocks, which, layout, stride=None, delta=None, block=65536, steps=None):
    """parameters of a large case: the `which` block has n_big records of `stride` lines, n_big * stride just above
    (delta records beyond) n_blocks * block lines"""
    stride = stride or rnd.choice([3, 3, 5, 6, 7])
    wrap, comps = rnd.choice(STRIDE_SHAPES[stride])
    base = (n_blocks * block) // stride
    n_big = base + (delta if delta is not None else rnd.choice([1, 1, 2, 3, rnd.randint(4, 60), rnd.randint(60, 400)]))
    return {'which': which, 'layout': layout, 'stride': stride, 'wrap': wrap, 'comps': comps, 'n_big': n_big,
            'n_lines': n_big * stride, 'trail': rnd.random() < .7, 'seed': rnd.getrandbits(32),
            'steps': list(steps or [rnd.choice([1, 3, 10, 100])]),
            'ids': rnd.choice(['dense', 'sparse', 'sparse', 'huge']), 'storage': rnd.choice(['asc', 'desc', 'shuf', 'midshuf']),
            'row_order': rnd.choice(['mesh', 'asc', 'shuf']), 'mixed': rnd.random() < .5,
            'other_stride': rnd.choice([2, 3, 4, 5])}


def split_widths(rs, total, pool, prefix):
    """variables [name, width] whose widths add up to `total`"""
    out = []
    left = total
    while left:
        w = int(rs.choice([x for x in (1, 1, 2, 3, 3, 6, 7, 9, left) if x <= left]))
        out.append([pool[len(out)] if len(out) < len(pool) else f'{prefix}{len(out)}', w])
        left -= w
    return out


def rand_values(rs, shape):
    """finite float64 values: mostly arbitrary bit patterns (two thirds of them have a three-digit decimal exponent),
    some small integers / dyadic rationals / decimals, and the structured special values"""
    n = int(np.prod(shape))
    v = rs.integers(0, 2**64, size=n, dtype=np.uint64).view(np.float64).copy()
    bad = ~np.isfinite(v)
    v[bad] = rs.integers(-50, 50, size=int(bad.sum())).astype(float)
    k = rs.random(n)
    m = k < .15
    v[m] = rs.integers(-50, 50, size=int(m.sum())).astype(float)
    m = (k >= .15) & (k < .3)
    v[m] = rs.integers(-10**6, 10**6, size=int(m.sum())) / 2.0**rs.integers(0, 20, size=int(m.sum()))
    m = (k >= .3) & (k < .4)
    v[m] = np.round(rs.uniform(-1e5, 1e5, size=int(m.sum())), 7)
    m = (k >= .4) & (k < .45)
    v[m] = np.asarray(SPECIAL)[rs.integers(0, len(SPECIAL), size=int(m.sum()))]
    return v.reshape(shape)


def make_ids(rs, n, style, storage):
    if style == 'dense':
        ids = np.arange(1, n + 1) + int(rs.integers(0, 1000))
    elif style == 'sparse':
        ids = np.sort(rs.choice(np.arange(1, 20 * n + 50), size=n, replace=False))
    else:
        ids = np.sort(rs.choice(np.arange(1, 20 * n + 50), size=n, replace=False)) + int(rs.integers(10**6, 2 * 10**9 - 20 * n - 60))
    if storage == 'desc':
        ids = ids[::-1].copy()
    elif storage == 'shuf':
        rs.shuffle(ids)
    elif storage == 'midshuf':
        rs.shuffle(ids[1:-1])
    return ids.astype(np.int64)


def expand_large(par):
    """-> case dict in the format of gen_case (mesh / variables / orders / wraps), with `values`: {step: (nodal array,
    elemental array)} as float64 arrays in row order and the token rows under 'data'"""
    rs = np.random.default_rng(par['seed'])
    big_nodal = par['which'] == 'nodal'
    n_big = par['n_big']
    if big_nodal:
        n_nodes = n_big
        types = [str(rs.choice(['hex2', 'hex2', 'tet2', 'hex']))]
        a = ARITY[types[0]]
        n_main = -(-n_nodes // a)
        extra = str(rs.choice(['tet', 'prism', 'tri', 'line'])) if par['mixed'] else None
        n_extra = int(rs.integers(1, 6)) if extra else 0
    else:
        n_nodes = int(rs.integers(40, 200))
        types = [str(rs.choice(['line', 'tri', 'line', 'quad', 'tet']))]
        if par['mixed']:
            types.append(str(rs.choice([t for t in ['line', 'tri', 'quad', 'tet', 'prism'] if t != types[0]])))
        n_main, extra, n_extra = n_big, None, 0
    n_elems = n_main + n_extra
    nids = make_ids(rs, n_nodes, par['ids'], par['storage'])
    eids = make_ids(rs, n_elems, par['ids'] if rs.random() < .7 else 'dense', str(rs.choice(['asc', 'desc', 'shuf', 'midshuf'])))
    # connectivity over node POSITIONS; every node is referenced
    blocks = {}
    if big_nodal:
        a = ARITY[types[0]]
        pos = (np.arange(n_main)[:, None] * a + np.arange(a)[None, :]) % n_nodes
        e_type = np.zeros(n_elems, dtype=int)
        conn = {0: pos}
        if extra:
            ax = ARITY[extra]
            conn[1] = np.stack([rs.choice(n_nodes, size=ax, replace=False) for _ in range(n_extra)])
            where = rs.choice(n_elems, size=n_extra, replace=False)
            e_type[where] = 1
            types.append(extra)
    else:
        # element k of type k % len(types) (ids of the types interleave) or the types in two contiguous runs
        e_type = (np.arange(n_elems) % len(types)) if rs.random() < .6 else (np.arange(n_elems) * len(types) // n_elems)
        conn = {}
        for ti, t in enumerate(types):
            a = ARITY[t]
            ks = np.flatnonzero(e_type == ti)
            off = 1 + (ks // n_nodes) % max(1, (n_nodes - 1) // a)
            conn[ti] = (ks[:, None] + np.arange(a)[None, :] * off[:, None]) % n_nodes
    for ti, t in enumerate(types):
        ks = np.flatnonzero(e_type == ti)
        blocks[t] = (eids[ks], nids[conn[ti]])
    if rs.random() < .5 and len(types) > 1:
        blocks = dict(reversed(list(blocks.items())))
    coords = rs.integers(-1000, 1000, size=(n_nodes, 3)) / 8.0

    def row_order(ids):
        ids = ids.copy()
        if par['row_order'] == 'asc':
            ids.sort()
        elif par['row_order'] == 'shuf':
            rs.shuffle(ids)
        return ids
    n_order, e_order = row_order(nids), row_order(np.concatenate([b[0] for b in blocks.values()]))
    ow, oc = STRIDE_SHAPES[par['other_stride']][int(rs.integers(0, len(STRIDE_SHAPES[par['other_stride']])))]
    (wv_n, c_n), (wv_e, c_e) = ((par['wrap'], par['comps']), (ow, oc)) if big_nodal else ((ow, oc), (par['wrap'], par['comps']))
    nv = split_widths(rs, c_n, NAMES_N, 'NV')
    ev = split_widths(rs, c_e, NAMES_E, 'EV')
    values = {s: (rand_values(rs, (n_nodes, c_n)), rand_values(rs, (n_elems, c_e))) for s in par['steps']}
    return {'large': par, 'layout': par['layout'], 'trail': par['trail'], 'wraps': [int(rs.choice([1, 2, 10])), wv_n,
                                                                                   int(rs.choice([1, 2, 10])), wv_e],
            'nodal_vars': nv, 'elem_vars': ev, 'nodal_order': n_order, 'elem_order': e_order, 'steps': list(par['steps']),
            'values': values, 'blocks': blocks, 'node_ids': nids, 'coords': coords, 'stem': 'm', 'dir': 'c02', 'rank': 0}


def large_msh_text(case):
    L = ['!HEADER', ' generated by the C02 harness (large)', '!NODE']
    L += ['%d, %r, %r, %r' % (i, x, y, z) for i, (x, y, z) in zip(case['node_ids'].tolist(), case['coords'].tolist())]
    for t, (ids, conn) in case['blocks'].items():
        L.append('!ELEMENT, TYPE=%d' % CODE[t])
        L += [', '.join(map(str, [e] + c)) for e, c in zip(ids.tolist(), conn.tolist())]
    L.append('!END')
    return '\n'.join(L) + '\n'


def large_tokens(case, step):
    """token rows of one step, in the format `py_render` takes"""
    nod, ele = case['values'][step]
    return {'nodal': [['%.16E' % x for x in r] for r in nod.tolist()], 'elem': [['%.16E' % x for x in r] for r in ele.tolist()]}


def brief_large(case):
    par = case['large']
    return {'large': par, 'mesh': {'types': list(case['blocks']), 'n_nodes': len(case['nodal_order']),
                                   'n_elems': len(case['elem_order'])},
            'layout': case['layout'], 'wraps': case['wraps'], 'nodal_vars': case['nodal_vars'], 'elem_vars': case['elem_vars']}


def oracle_large(ctx, par, report, series=False):
    """the property on the real API, vectorised: every value under its id / variable / component (bit patterns)"""
    import shutil
    from femio import FEMData
    case = expand_large(par)
    lay = case['layout']
    d = ctx.tmp / 'c02'
    for old in set(DIRS):
        if (ctx.tmp / old).exists():
            shutil.rmtree(ctx.tmp / old)
    d.mkdir()
    (d / 'm.msh').write_text(large_msh_text(case))
    small = {k: case[k] for k in ('layout', 'trail', 'wraps', 'nodal_vars', 'elem_vars')}
    small['nodal_order'], small['elem_order'] = case['nodal_order'].tolist(), case['elem_order'].tolist()
    for s in case['steps']:
        small['data'] = {str(s): large_tokens(case, s)}
        (d / f'm.res.0.{s}').write_text(fast_render(small, s))
    del small
    steps = sorted(case['steps'])

    def compare(fd, s, k, tag):
        """slice k (None: not a series) of the object read against the data written for step s"""
        for key, attrs, vars_, ids, vals in (('nodal', fd.nodal_data, case['nodal_vars'], case['nodal_order'], case['values'][s][0]),
                                             ('elem', fd.elemental_data, case['elem_vars'], case['elem_order'], case['values'][s][1])):
            names = sorted(n for n in attrs.keys() if n != 'NODE')
            if names != sorted(n for n, _ in vars_):
                report(f'variables-differ:{key}:{lay}', f'{tag}: variables read {names} != written {sorted(n for n, _ in vars_)}',
                       {'read': names})
                continue
            by = np.argsort(ids)
            off = 0
            for n, w in vars_:
                got_ids = np.asarray(attrs[n].ids).astype(np.int64)
                got = np.asarray(attrs[n].data, dtype=np.float64)
                if k is not None:
                    got = got[k] if got.ndim == 3 and len(got) > k else None
                want = vals[:, off:off + w]
                off += w
                if got is None or sorted(got_ids.tolist()) != ids[by].tolist() or got.shape != (len(ids), w):
                    report(f'misattributed:{key}:{lay}', f'{tag}, {key} variable {n!r}: ids / shape read differ from the '
                           f'ones written', {'variable': n, 'shape': None if got is None else list(got.shape),
                                             'n_ids': len(got_ids)})
                    continue
                rows = by[np.searchsorted(ids[by], got_ids)]
                bad = np.argwhere(np.ascontiguousarray(got).view(np.uint64) != np.ascontiguousarray(want[rows]).view(np.uint64))
                if len(bad):
                    r, c = bad[0]
                    report(f'misattributed:{key}:{lay}', f'{tag}, {key} variable {n!r}: value read under id {int(got_ids[r])} '
                           f'component {int(c)} is not the value written for it',
                           {'variable': n, 'id': int(got_ids[r]), 'component': int(c), 'read': repr(float(got[r, c])),
                            'written': '%.16E' % want[rows[r], c], 'n_wrong': len(bad)})
    for s in steps:
        fd, err = real(FEMData.read_files, 'fistr', [str(d / 'm.msh'), str(d / f'm.res.0.{s}')])
        if err:
            report(f'single-step-read-raises:{lay}', f'read_files of step {s} raises {err}', {'error': err})
            continue
        if sorted(int(i) for i in fd.nodes.ids) != sorted(case['nodal_order'].tolist()):
            raise RuntimeError('harness: the large .msh was not read back with the generated node ids')
        compare(fd, s, None, f'step {s}')
    if series:
        fd, err = real(FEMData.read_directory, 'fistr', d, read_npy=False, save=False, time_series=True)
        if err:
            report(f'series-read-raises:{lay}', f'read_directory(time_series=True) over steps {steps} raises {err}',
                   {'error': err, 'steps': steps})
        else:
            got_steps = [int(x) for x in fd.settings.get('time_steps', [])]
            if got_steps != steps:
                report('series-steps-not-ascending', f"settings['time_steps'] = {got_steps} for steps {steps}",
                       {'time_steps': got_steps})
            for k, s in enumerate(steps):
                compare(fd, s, k, f'series slice {k} (step {s})')
    return case


def run_large(ctx, par, series=False):
    def report(sig, what, observed):
        ctx.fail(sig, what + f" [large file: {par['which']} block of {par['n_big']} records x {par['stride']} lines = "
                 f"{par['n_lines']} lines]", {'large': par, 'series': series}, observed)
    case = oracle_large(ctx, par, report, series)
    ctx.case(('large', str(par)), sample=brief_large(case), nontrivial=True)
    ctx.count(f"large: {par['which']} block, {par['stride']} lines per record, > {par['n_lines'] // 65536} x 65536 lines, "
              f"layout {par['layout']}")
    ctx.count('large: mesh ' + '+'.join(case['blocks']))


def run(ctx):
    n_cases = ctx.n(140, 1500) if ctx.driver is not None else ctx.n(250, 2000)
    cfg_mismatch = {'fixed': [], 'upstream': []}
    for name, obj in C.corpus_cases(PROP):
        run_case(ctx, obj['input'], cfg_mismatch)
        ctx.count('corpus')
    for k in range(n_cases):
        # the first cases make sure the small classes (singleton step sets, 2 vs 10, steps straddling the digit-count
        # boundaries 999|1000, 9999|10000, 99999|100000) are present in every run
        first = k < len(FIRST_STEPS)
        case = gen_case(ctx.rng, steps=FIRST_STEPS[k] if first else None, name_style=FIRST_NAMES[k] if first else None,
                        dir_style=FIRST_DIRS[k] if first else None)
        b = brief(case)
        wrapped = (sum(w for _, w in case['nodal_vars']) > case['wraps'][1]
                   or len(case['nodal_vars']) > case['wraps'][0])
        ctx.case((str(case['mesh']), str(case['nodal_vars']), str(case['elem_vars']), str(case['wraps']), case['layout'],
                  str(case['steps'])), sample=b,
                 nontrivial=len(case['elem_order']) >= 2 and (len(case['nodal_vars']) + len(case['elem_vars']) >= 2 or wrapped))
        ctx.count('layout:' + case['layout'])
        ctx.count('mesh:' + ('mixed' if len(case['mesh']['blocks']) > 1 else 'uniform'))
        for t in case['mesh']['blocks']:
            ctx.count('etype:' + t)
        ctx.count('storage-order:' + str(case['mesh'].get('order')))
        ctx.count('row-order nodal/elem:' + '/'.join(case['order_kinds']))
        ctx.count(f"n_steps:{len(case['steps'])}")
        ctx.count('step digit counts:' + ','.join(str(x) for x in sorted({len(str(x)) for x in case['steps']})))
        ctx.count('file names: ' + ('m.res.0.<step> in c02/' if (case['stem'], case['dir'], case['rank']) == ('m', 'c02', 0)
                                    else 'stem / directory / rank with digits'))
        ctx.count(f"n_elem_vars:{len(case['elem_vars'])}")
        ctx.count('variable names: ' + case['name_style'])
        if case['explicit_stem']:
            ctx.count('directory also read with stem= given explicitly')
        ts = set(case['mesh']['blocks'])
        if any(a in ts and a + '2' in ts for a in ('tet', 'hex', 'line')):
            ctx.count('mesh: first- and second-order elements of one shape together')
        n_n, n_e, n_s = len(case['nodal_order']), len(case['elem_order']), len(case['steps'])
        if n_n == n_e or n_s in (n_n, n_e):
            ctx.count('square shapes: ' + ('n_nodes == n_elems' if n_n == n_e else 'n_steps == n_nodes or n_elems'))
        names = [n for n, _ in case['nodal_vars']], [n for n, _ in case['elem_vars']]
        for sec, ns in zip(('nodal', 'elemental'), names):
            if ns and not all(is_plain(n) for n in ns):
                ctx.count(f'non-word names in the {sec} list: ' + ('all' if not any(is_plain(n) for n in ns) else 'first' if
                          not is_plain(ns[0]) else 'last' if not is_plain(ns[-1]) else 'inner only'))
        ctx.count('files with non-word names and elemental variables: ' + str(bool(
            names[1] and not all(is_plain(n) for n in names[0] + names[1]))))
        ctx.count('directory: result files named ' + ('after the mesh' if case['res_stem'] == case['stem'] else 'differently')
                  + ', control file ' + ('none' if not case['cnt'] else 'named after the mesh' if case['cnt'] == case['stem'] + '.cnt'
                                         else 'named after the results' if case['cnt'] == case['res_stem'] + '.cnt' else 'own name')
                  + (', other solver files' if case['extras'] else ''))
        ctx.count('value-lines-wrapped:' + str(wrapped))
        run_case(ctx, case, cfg_mismatch)
    # size boundaries (class G): large-but-cheap files, one block of more than k x 2^16 lines whose lines per record do
    # not divide the block size; rendered by fast_render (cross-checked above), judged by the vectorised oracle
    lay = ctx.rng.sample(['old', 'v2'], 2)
    big = ctx.rng.sample(['nodal', 'elem'], 2)
    if ctx.quick:
        plan = [dict(n_blocks=1, which=big[0], layout=lay[0], stride=3),
                dict(n_blocks=2, which=big[1], layout=lay[1], stride=ctx.rng.choice([3, 5, 6, 7]))]
    else:
        plan = [dict(n_blocks=nb, which=w, layout=ctx.rng.choice(lay), stride=st)
                for nb in (1, 2) for w in big for st in (3, 5, 6, 7)]
        # records ending exactly at / one line around the block boundaries, power-of-two strides as controls, 3 blocks,
        # other block sizes a chunked reader might use, a two-step series
        plan += [dict(n_blocks=nb, which=ctx.rng.choice(big), layout=ctx.rng.choice(lay), stride=st, delta=dl)
                 for nb in (1, 2) for st, dl in ((3, 0), (3, 1), (5, 0), (6, 1), (7, 0), (2, 1), (4, 1), (9, 2))]
        plan += [dict(n_blocks=3, which=big[0], layout=lay[0], stride=3),
                 dict(n_blocks=1, which=big[1], layout=lay[1], stride=3, block=2**15),
                 dict(n_blocks=1, which=big[0], layout=lay[1], stride=7, block=10**5),
                 dict(n_blocks=1, which=big[0], layout=lay[0], stride=5, block=2**14),
                 dict(n_blocks=1, which=big[1], layout=lay[0], stride=3, steps=[2, 10])]
    for kw in plan:
        par = gen_large(ctx.rng, **kw)
        run_large(ctx, par, series=len(par['steps']) > 1)
    # separate labelled stream: meshes with unreferenced nodes (outside the quantifier; classified, never `fail`)
    for k in range(ctx.n(10, 60)):
        case = gen_case(ctx.rng, keep_unref=True)
        if case['n_unref'] == 0:
            continue
        ctx.count('stream unreferenced-node: cases')
        run_case(ctx, case, cfg_mismatch, stream='stream unreferenced-node')
    if ctx.driver is not None:
        agree = [c for c in cfg_mismatch if not cfg_mismatch[c]]
        ctx.extra['cfg_detected'] = agree
        ctx.extra['cfg_mismatches'] = {c: len(v) for c, v in cfg_mismatch.items()}
        if 'fixed' not in agree:
            for b, impl, model in cfg_mismatch['fixed'][:10]:
                ctx.disagree('time series: femio != model Cfg.fixed'
                             + (' (tree behaves as Cfg.upstream: F7)' if 'upstream' in agree else ''), b, impl, model)
    ctx.failures.sort(key=lambda f: size_of(f['case']))


def replay(ctx, obj):
    case = obj['input']
    if 'large' in case:
        found = []
        big = oracle_large(ctx, case['large'], lambda sig, what, observed: found.append(
            {'signature': sig, 'what': what, 'observed': observed}), case.get('series', False))
        return {'case': brief_large(big), 'failures': found, 'fails': bool(found)}
    texts = {int(s): t for s, t in case['files'].items()}
    d = write_files(ctx, case, texts)
    found = []
    oracle(case, d, lambda sig, what, observed: found.append({'signature': sig, 'what': what, 'observed': observed}))
    out = {'case': brief(case), 'files': sorted(p.name for p in d.iterdir()), 'failures': found, 'fails': bool(found)}
    if ctx.driver is not None:
        names = [Path(p).name for p in glob.glob(str(d / '*.res.*'))]
        files = [(n, texts[int(n.rsplit('.', 1)[1])]) for n in names]
        reps = ctx.driver.ask_many([readdir_line(case, 1, 1, files), readdir_line(case, 0, 1, files)])
        out['model'] = {'Cfg.fixed series': summarize(dec_dir(reps[0])), 'Cfg.upstream series': summarize(dec_dir(reps[1]))}
    return out
