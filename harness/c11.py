"""C11 - element areas / volumes / normals are geometric invariants and add up (DESIGN.md section 4, C11).

Tie P : every kernel x mode x type of geometry_processor.py is evaluated on random rational points (exact
        float64 values) by real femio and, over `Rat`, by the Lean model (`c11.vol / c11.polyvol / c11.area /
        c11.normal`); areas are compared through the radicands the model returns (area = sum sqrt(q) / den).
Tie D : `c11.meshvol / mesharea / meshnormal` go through the id -> position lookup and the mixed-mesh assembly
        (`Cfg.alignById`), compared per element id on meshes with arbitrary ids / storage order;
        `c11.brick` reproduces generate_brick (connectivity exact, positions to 1e-12).
Tie S : (symbolic-execution translator, harness/gen_kernels.py) the real calculate_element_volumes / _areas / _normals are
        executed on ONE element with symbolic coordinates; the exact polynomial that comes out is emitted to Gen/Kernels.lean on
        every run and Props/KernelTie.lean proves, by `ring` over every commutative ring, that it IS the model kernel
        (KT_<api>_<type>_<mode>) and that the model's dispatch functions return it (KT_dispatch_...).  46 (type, mode) kernels;
        built / audited separately (see `kernel_tie`): a changed formula breaks exactly the KT_ theorems of that kernel.
Tie H : (histories) `c11.seq` runs Model/GeomHistory.lean (stored 'volume' / 'area' / 'metric' variables reused as the code does,
        `_validate_metric` read-only) on the same call sequence as ONE live object; every step compared (stream `sequence`).
Oracle: metamorphic, on the public API only: relabel ids, shuffle storage, exact rational rotation + translation,
        scaling, reflection, `relist` (planar shell cells listed from another start node / in the opposite orientation);
        modes agree on affine cells and equal the closed form (polygons of planar meshes included); bricks: counts,
        positivity, sum = box; stream `polygon`: planar tilings by NON-CONVEX polygon cells with hanging nodes, every
        listing (start node x orientation) of every cell, exact areas (cell counts) in every mode, unit plane normals.
"""
import math
from fractions import Fraction as F

import numpy as np

from . import common as C
from . import meshgen as G

PROP = 'C11'
LEAN_MODULES = ['Femio.Props.C11', 'Femio.Props.C11Modes']
THEOREMS = []          # filled below (kept next to the explanation of each group)
PARTIAL = [
    'polyhedron kernels under translations: proved for the fan AND the centroid kernel (C11_polyFan_translate, C11_polyC_shift / '
    'C11_polyC_translate / C11_polyC_translate_rat) under the hypothesis "the fan area vectors of the faces sum to zero", which '
    'holds identically for the tet / hex / prism / pyr face tables (C11_face_tables_closed); that an arbitrary user-supplied '
    'face list is closed is a hypothesis, not a theorem',
    'C11_storage_perm_mixed is a theorem about Cfg.fixed, which the working tree implements since the repair "fix: per-element '
    'metrics of mixed meshes are bound to the right elements" (detected per run: extra.cfg_detected); the pinned upstream commit '
    'behaves as Cfg.upstream (C11_mixed_counterexample_upstream)',
    'areas: theorems are about the area vectors / radicands (area = sum sqrt(q) / den); sqrt itself, float rounding, the float32 '
    'accumulators and LAPACK det are runtime, covered by the tolerance of the P-tie',
    'generate_random_mesh (scipy Delaunay) is exercised by the oracle only',
    'call histories on one object (C11_hist_*, Model/GeomHistory.lean): the model transcribes the tree AS IT IS, i.e. a call with '
    'elements=None returns _validate_metric(stored variable) whatever mode / return_abs_* it asks for (open known finding of C19 '
    '`options-ignored:<query>`); proved about it: the stored variable is never written by the calls it answers (C11_hist_read_only), '
    'stays what the first storing call returned (C11_hist_signed_stable), every value returned in any history is a fresh-object value '
    'of some (mode, options) (C11_hist_values_are_query_values), histories are invisible on meshes without negative elements whose modes '
    'agree (C11_hist_positive_invisible), signed histories commute with negation = reflection (C11_hist_reflect_signed).  NOT proved '
    'because false on the tree: "every call returns the fresh-object value of ITS OWN options".  calculate_element_normals (lru_cache, '
    'no stored reuse), calls on a type block and meshes with polyhedron faces are outside the history model (oracle + kernel model only); '
    'the aliasing of returned arrays with the stored buffer is not modelled (checked by the snapshot oracle)',
    'tie S (KT_ theorems: traced polynomial of the working tree = model kernel) covers every (type, mode) of volumes / areas / normals '
    'except the two kernels with the float Gauss abscissa (hex "gaussian" volume, quad "gaussian" area: tie P only); polygon kernels at '
    '3 and 5 nodes and polyhedron kernels on the tet and the pyramid face list (other arities: tie P only); float rounding, float32 '
    'accumulation and the final sqrt / normalisation are outside it (tie P tolerance); a kernel the tracer cannot execute symbolically '
    'is recorded in extra.kernel_tie.untraceable and keeps tie P only',
    'modes agree on straight planar-faced NON-affine cells: now theorems over any commutative ring, planarity = one hypothesis '
    'det(b-a, c-a, d-a) = 0 per quad face of the face table (C11_hex_modes_agree_planar [6 faces], C11_prism_modes_agree_planar '
    '[3], C11_pyr_modes_agree_planar [1]; the value is the face-fan volume the oracle calls `exact`: C11_hex_planar_exact, '
    'C11_volume_hex_planar, C11_volume_prism_pyr_planar; unconditional defect identities C11_*_lin_centroid_defect / '
    '_lin_fan_defect; false without planarity: C11_hex_modes_disagree_nonplanar, C11_prism_pyr_modes_disagree_nonplanar). '
    'Hex "gaussian": with the EXACT abscissa (3 g^2 = 1) it equals "centroid" on every hex (C11_hexGauss_eq_centroid) hence all '
    'modes on planar-faced hexes (C11_hexGauss_modes_agree_planar); with the literal 0.5773502692 of the code it is exact only '
    'on affine cells (C11_hex_modes_agree_affine) and provably NOT exact otherwise (C11_gaussP_inexact: 3 g^2 - 1 ~ 3.6e-11, '
    'C11_hexGauss_centroid_defect, C11_hexGauss_literal_inexact) - that the deviation stays below the tolerance is oracle only, '
    'as are float rounding and the float32 accumulators; the shell (area) modes on non-affine planar quads are oracle only',
]
RULE = ('(P) per kernel x mode x type N disjoint elements (half: independent random points of the grid {k 2^-16 : |k| <= 2^19}^3, '
        'half: jittered / exact affine images of the reference cell), arbitrary ids, shuffled storage, evaluated by real femio '
        'and exactly by the model; (D) conforming meshes (tet, hex, prism, pyr, hex+prism+pyr, tet2, tri, quad, tri+quad, polygon, '
        'polyhedron, hexprism; affine / jittered; voids; ids dense / sparse / large / huge / prefix-like; storage asc / desc / '
        'shuffled; type blocks shuffled) through the id lookup, x mode; (oracle) each mesh x api x mode x {relabel, storage, '
        'rigid, translate, scale, reflect} + modes-agree-on-affine + modes = exact volume on straight planar-faced non-affine '
        'cells under a random dyadic affine map (frustums: parallel end faces; obliquely cut prisms / hexes: NON-parallel end '
        'faces - triangle extruded to three different heights, cone cut at three different ratios, quad extruded up to an '
        'oblique plane; connectivity started at a random corner) + bricks (type x n x lengths) + generate_random_mesh; '
        'mesh kind `shell:polytile` (main loop: tie D + every transform): an nx x ny grid partitioned into random simply connected '
        'regions (polyominoes: L, U, T, Z, plus, comb ... - in general NOT convex), each region one polygon element through every grid '
        'vertex of its boundary (collinear / hanging nodes; in half of the meshes each collinear node dropped with probability 1/2), '
        'listed from a RANDOM start node, single cells also quad / 2 tri, plus one arrow / star polygon (not rectilinear), mapped to '
        '3-D by a random dyadic affine map; transform `relist` on every planar shell mesh (each cell re-listed from a random start '
        'node, 40 % reversed: areas equal, normals negated for the reversed ones); modes-agree-on-affine now also for polygon cells '
        'of planar meshes (closed form = length of the exact vector area); '
        'stream `polygon`: such tilings (the classical L / U / T / plus / Z / comb / long-L shapes first, then random) as generated, '
        'polygon-only with every polygon replaced by ALL its listings (every start node x both orientations; quick: 16 sampled per '
        'polygon), mixed with tri / quad cells (8 listings per polygon; femio then uses its default mode), every third mesh at an '
        'absolute scale 2^-13 / 2^-10 / 2^10; asserted per cell in every mode and through calculate_element_metrics: area = exact '
        'area (number of grid cells x |A e_x x A e_y|; star: sum of its positive fan triangles), normal = unit plane normal (negated '
        'for a reversed listing), the grid part adds up to the parallelogram; '
        'stream `absolute-scale`: the same generator meshes (shell kinds twice as often) scaled exactly by 2^-13 / 2^-10 / 2^10, then '
        'tie D + {rigid, translate (in the mesh\'s own unit), scale, reflect, rescale (power of two across orders of magnitude), '
        'storage} + modes-affine at that absolute scale, tolerances relative to the scaled mesh; every normal inside the clamp-free '
        'range must be a unit vector (all streams); '
        'stream `sequence` (call histories on ONE live object): meshes of every kind (tet, hex, prism, pyr, hex+prism+pyr, tet2, polyhedron, '
        'polyhedron + typed cells, hexprism, tri, quad, tri+quad, polygon) x orientation {positive, reflected by an exact improper rotation, partly '
        'inverted (connectivity of a random subset flipped)} x 2-5 calls of calculate_element_volumes / _areas / _metrics / _normals with random '
        '(mode, raise_negative_*, return_abs_*, elements in {None, fem_data.elements, one type block}, update); half of the sequences are '
        'sandwiches [q, q\', q] (q\' = q with one option or the api changed) with random calls inserted.  Each step is compared with the same '
        'call on a freshly built equal object and with the history model (tie H); a step that differs from the fresh value but equals exactly '
        '_validate_metric(options, SNAPSHOT of what the storing call returned) is the open known finding of C19 `options-ignored` and is counted '
        '(`sequence:step:known:options-ignored:<api>`), not failed; anything else is a failure (`sequence:reflect-sign:*` when a signed value of a '
        'negatively oriented element came back with the opposite sign, else `sequence:value:*`).  Arrays returned by earlier calls are '
        'snapshotted and must stay bit-identical after every later call (`sequence:returned-array-changed:*`), as must coordinates, '
        'connectivity, ids and face data (`sequence:input-changed:*`); '
        'a case is non-trivial when the exact value is not ~0 (P) / always (metamorphic: the transformed mesh differs); '
        'distinct = distinct (stream, mesh / element, api, mode, transform)')
ASSUMPTIONS = [
    'tolerances relative to max|p|^d (DESIGN 2.3): 1e-9 for float64 kernels, 2e-6 for kernels accumulating in float32 (hex / pyr / '
    'prism / polyhedron "centroid", polygon centroid kernel); unit normals: 4e-9 * max|p|^2 / |c| (float32 polygon kernel: '
    '1e-5 * max|p|^2 / |c| + 5e-7); metamorphic comparisons use 4x these; relabel / storage comparisons are exact up to 1e-13',
    'identity-testing inputs are centred at the origin with |coordinate| <= 8',
    'absolute scale (stream `absolute-scale`: meshes scaled exactly by 2^-13, 2^-10, 2^10; transform `rescale`: 2^-13 .. 2^10): areas / '
    'volumes have no absolute threshold in femio and are asserted at every scale with tolerances relative to max|p|^d of the '
    'scaled mesh.  Normals: functions.normalize divides by max(|v|, config.EPSILON = 1e-5) and calculate_element_normals '
    'normalises twice (kernel + final pass), so the unchanged tree returns exact unit normals as long as the un-normalised normal '
    '(2 x area; 2 x area / (n - 2) for the polygon fan kernel) is >= EPSILON^2 = 1e-10 and a SHORTER vector below that (measured: '
    'length 0.4 at 2 x area = 4e-11, 0.04 at 2.5e-12).  "Within the float range the method\'s precision supports" is therefore '
    'read as |un-normalised normal| >= 1e-9 (edge length >~ 3e-5): unit length, rigid / scale invariance and the reflection sign '
    'of normals are asserted only for such elements (others are counted under `elements-below-the-clamp-range`)',
    'stream `sequence`: classified outside the statement and only counted - calculate_element_metrics on a pyr mesh / a mixed mesh with a '
    'pyr block raises NotImplementedError (declared unsupported: no value is computed); not generated - calculate_element_normals('
    'elements=fem_data.elements) (lru_cache needs a hashable argument; type blocks are passed instead), calculate_element_metrics('
    'elements=..., update=True) once a metric is stored (update_data without allow_overwrite raises: DESIGN 5 F5), update=True on a '
    'type block (would store a partial variable under the mesh-wide name).  The stored-variable reuse `options-ignored` is judged by C19, '
    'not here (see RULE); the live step must then equal the stored snapshot exactly (bitwise, or the same exception type)',
    'polyhedron face data hold node storage indices (as produced by to_polyhedron); reordering node storage re-indexes them',
    'calculate_element_areas / _normals on a mixed mesh ignore `mode` (sub-calls use the default "centroid"): transcribed in the '
    'model (shellModeInMesh), not a violation of the property',
    'the polygon branch of calculate_element_areas is transcribed as written (mode == "centroid" -> fan kernel, other modes -> '
    'centroid kernel)',
    'polygon cells: a polygon element is any simple closed loop of nodes (non-convex loops, collinear / hanging nodes, any start node, '
    'either orientation are all inside "every element type ... polygon"); the exact area is asserted for PLANAR polygons only (a '
    'non-planar loop has no area; for those only the invariances and model = implementation are checked); `relist` is applied to '
    'planar shell meshes only (for a non-planar quad the two-triangle `linear` area legitimately depends on the diagonal, i.e. on '
    'the start node); non-convex QUAD elements are not generated (not valid finite elements)',
]
TRUSTED = ['C11: sqrt of the exact radicands is taken on the Python side (math.sqrt of a Fraction)',
           'C11 tie S: harness/gen_kernels.py (symbolic-execution translator working tree -> lean/Femio/Gen/Kernels.lean): exact polynomial '
           'arithmetic of class Sym (numpy object arrays), and what it substitutes inside femio.geometry_processor while tracing: '
           'np.linalg.det (hand specification: 3x3 cofactor expansion), np.linalg.norm (formal sum c_k |v_k|, no sqrt evaluated), '
           'np.zeros / np.empty with a float dtype (object array of zeros), functions.normalize (identity: the model returns the '
           'un-normalised normal), nodes._data (symbolic coordinates), njit kernels run through .py_func, float constants read as '
           'the small-denominator rational that rounds to them (1. / 6. -> 1/6); everything else (np.cross, np.dot, np.stack, np.sum, '
           'mean, indexing, the id -> index lookup, the mode / type dispatch) is the real code']

S_GRID = 2 ** 20           # side of the grid the identity-testing points are drawn from
R_MAX = 8                  # |coordinate| <= 8 (DESIGN 2.3: float32 accumulators of the centroid kernels)
TOL64 = 1e-9               # relative to max|p|^d, float64 kernels
TOL32 = 2e-6               # relative to max|p|^d, kernels accumulating in float32
MODES = ['linear', 'gaussian', 'centroid']

# kernels that accumulate in float32 (np.zeros(n, np.float32) accumulators / float32 centroid)
F32 = {('hex', 'centroid'), ('pyr', 'centroid'), ('prism', 'centroid'), ('polyhedron', 'centroid'),
       ('polygon', 'linear'), ('polygon', 'gaussian')}
F32_NORMAL = {('polygon', 'centroid')}


def normal_tol(ty, mode, sc, nq):
    """unit normals: error of the un-normalised vector (size ~ (2 max|p|)^2) divided by its length; the float32 kernel
    also returns float32 components"""
    if (ty, mode) in F32_NORMAL:
        return 1e-5 * sc ** 2 / nq + 5e-7
    return 4 * TOL64 * sc ** 2 / nq + 1e-12


def tol_for(ty, mode, api='metric'):
    if api == 'normal':
        return TOL32 if (ty, mode) in F32_NORMAL else TOL64
    return TOL32 if (ty, mode) in F32 else TOL64


# ------------------------------------------------------------------------------------------ building FEMData

def to_fem(m):
    """mesh dict -> FEMData (handles polygon rows of different lengths and polyhedron face data)"""
    from femio import FEMData, FEMAttribute, FEMElementalAttribute
    nodes = FEMAttribute('NODE', ids=np.array([i for i, _ in m['nodes']]),
                         data=np.array([[float(v) for v in p] for _, p in m['nodes']], dtype=float), silent=True)
    el = {}
    for t, b in m['blocks'].items():
        rows = [list(c) for _, c in b]
        if t in ('polygon', 'polyhedron') and len({len(r) for r in rows}) > 1:
            data = np.empty(len(rows), object)
            for k, r in enumerate(rows):
                data[k] = np.array(r)
        else:
            data = np.array(rows)
        el[t] = FEMAttribute(t, ids=np.array([e for e, _ in b]), data=data, silent=True)
    fd = G.quiet(lambda: FEMData(nodes=nodes, elements=FEMElementalAttribute('ELEMENT', G.insertion_order(el))))
    if 'faces' in m:          # polyhedron: face data = [n_faces, k1, idx..., k2, idx...] with node STORAGE indices
        pos = {i: k for k, (i, _) in enumerate(m['nodes'])}
        face_dat = np.empty(len(m['blocks']['polyhedron']), object)
        for k, (e, _) in enumerate(m['blocks']['polyhedron']):
            fl = [len(m['faces'][e])]
            for f in m['faces'][e]:
                fl += [len(f)] + [pos[n] for n in f]
            face_dat[k] = fl
        face = FEMElementalAttribute('face', {'polyhedron': FEMAttribute(
            'face', ids=np.array([e for e, _ in m['blocks']['polyhedron']]), data=face_dat, silent=True)})
        G.quiet(lambda: fd.elemental_data.update({'face': face}))
    return fd


def evaluate(m, api, mode):
    """per element id: the value the public API returns (fresh object: no stored results, no lru hits)"""
    fd = to_fem(m)
    try:
        type(fd).calculate_element_normals.cache_clear()
    except Exception:
        pass
    if api == 'volume':
        v = G.quiet(fd.calculate_element_volumes, mode=mode, raise_negative_volume=False)
    elif api == 'area':
        v = G.quiet(fd.calculate_element_areas, mode=mode)
    elif api == 'metric':
        v = G.quiet(fd.calculate_element_metrics, raise_negative_metric=False)
    elif api == 'normal':
        v = G.quiet(fd.calculate_element_normals, mode=mode)
    else:
        raise ValueError(api)
    v = np.asarray(v, dtype=float)
    ids = [int(i) for i in fd.elements.ids]
    if api == 'normal':
        return {i: v[k].tolist() for k, i in enumerate(ids)}
    return {i: float(v[k, 0]) for k, i in enumerate(ids)}


def scale_of(*meshes):
    return max([1e-300] + [abs(float(c)) for m in meshes for _, p in m['nodes'] for c in p])


def mesh_types(m):
    return list(m['blocks'])


def is_shell(m):
    return all(t in ('tri', 'quad', 'polygon') for t in m['blocks'])


# ------------------------------------------------------------------------------------------ generators

def grid_coord(rng):
    return F(rng.randint(-S_GRID // 2, S_GRID // 2) * R_MAX * 2, S_GRID)


def snap(x):
    """nearest point of the grid (exact Fraction, exactly representable in float64)"""
    q = F(S_GRID, 2 * R_MAX)
    return F(round(x * q), q)


REF = {
    'tet': [(0, 0, 0), (1, 0, 0), (0, 1, 0), (0, 0, 1)],
    'hex': [(0, 0, 0), (1, 0, 0), (1, 1, 0), (0, 1, 0), (0, 0, 1), (1, 0, 1), (1, 1, 1), (0, 1, 1)],
    'pyr': [(0, 0, 0), (1, 0, 0), (1, 1, 0), (0, 1, 0), (F(1, 2), F(1, 2), 1)],
    'prism': [(0, 0, 0), (1, 0, 0), (0, 1, 0), (0, 0, 1), (1, 0, 1), (0, 1, 1)],
    'hexprism': [(2, 0, 0), (1, 2, 0), (-1, 2, 0), (-2, 0, 0), (-1, -2, 0), (1, -2, 0),
                 (2, 0, 1), (1, 2, 1), (-1, 2, 1), (-2, 0, 1), (-1, -2, 1), (1, -2, 1)],
    'tri': [(0, 0, 0), (1, 0, 0), (0, 1, 0)],
    'quad': [(0, 0, 0), (1, 0, 0), (1, 1, 0), (0, 1, 0)],
}
# closed form of the signed volume of an affine image o + xi e: (multiple of det(e1,e2,e3))
CLOSED = {'tet': F(1, 6), 'hex': F(1), 'pyr': F(1, 3), 'prism': F(1, 2), 'hexprism': F(12)}


def ref_polygon(n):
    pts = []
    for k in range(n):
        a = 2 * math.pi * k / n
        pts.append((F(round(16 * math.cos(a)), 16), F(round(16 * math.sin(a)), 16), F(0)))
    return pts


def rand_affine(rng, small=False):
    while True:
        A = [[F(rng.randint(-6, 6), rng.choice([2, 4])) for _ in range(3)] for _ in range(3)]
        if abs(G.det3(*A)) >= F(1, 8):
            return A


def element_points(rng, ref, style):
    """points of one element: 'random' = independent grid points; 'shaped' = jittered affine image of the
    reference cell; 'affine' = exact affine image (snapped origin and edge vectors, so still exactly affine)"""
    n = len(ref)
    if style == 'random':
        return [tuple(grid_coord(rng) for _ in range(3)) for _ in range(n)]
    A = rand_affine(rng)
    o = [F(rng.randint(-8, 8), 4) for _ in range(3)]
    out = []
    for q in ref:
        v = [o[r] + sum(A[r][c] * F(q[c]) for c in range(3)) for r in range(3)]
        if style == 'shaped':
            v = [snap(x + F(rng.randint(-64, 64), 1024)) for x in v]
        out.append(tuple(v))
    return out


def batch_mesh(rng, ty, n_elem, styles, poly_n=None):
    """n_elem disjoint elements of one type, arbitrary node / element ids, shuffled storage"""
    nodes, rows = [], []
    arity = {'tet2': 10}.get(ty)
    ref = REF.get('tet' if ty == 'tet2' else ty)
    n_ids, _ = G.random_ids(rng, n_elem * 12 + 12, rng.choice(['sparse', 'large', 'dense']))
    rng.shuffle(n_ids)
    e_ids, _ = G.random_ids(rng, n_elem, rng.choice(['sparse', 'large', 'dense']))
    rng.shuffle(e_ids)
    used = 0
    meta = []
    for k in range(n_elem):
        style = styles[k % len(styles)]
        if ty == 'polygon':
            r = ref_polygon(poly_n[k % len(poly_n)])
        else:
            r = ref
        pts = element_points(rng, r, style)
        if ty == 'tet2':
            pts = pts + [tuple((a + b) / 2 for a, b in zip(pts[i], pts[j])) for i, j in G.TET2_EDGES]
            if style == 'random':   # mid nodes are ignored by the kernel: make them arbitrary
                pts = pts[:4] + [tuple(grid_coord(rng) for _ in range(3)) for _ in range(6)]
        ids = n_ids[used:used + len(pts)]
        used += len(pts)
        nodes += list(zip(ids, pts))
        rows.append((e_ids[k], ids))
        meta.append(style)
    rng.shuffle(nodes)
    return {'kind': 'batch:' + ty, 'order': 'shuf', 'nodes': nodes, 'blocks': {ty: rows}}, meta


def gen_shell(rng, kind=None, max_cells=3, order=None, id_style=None, jit=None):
    """conforming shell mesh in 3-D: kind in tri | quad | mixed | polygon; an affine image of a planar grid,
    optionally with out-of-plane jitter (then quads are not planar)"""
    kind = kind or rng.choice(['tri', 'quad', 'mixed', 'polygon'])
    nx, ny = rng.randint(1, max_cells), rng.randint(1, max_cells)

    def idx(x, y):
        return x + (nx + 1) * y
    pts = {idx(x, y): (F(x), F(y), F(0)) for y in range(ny + 1) for x in range(nx + 1)}
    elems = []
    for y in range(ny):
        x = 0
        while x < nx:
            c = [idx(x, y), idx(x + 1, y), idx(x + 1, y + 1), idx(x, y + 1)]
            if kind == 'tri' or (kind == 'mixed' and rng.random() < .5):
                if rng.random() < .5:
                    elems += [('tri', [c[0], c[1], c[2]]), ('tri', [c[0], c[2], c[3]])]
                else:
                    elems += [('tri', [c[0], c[1], c[3]]), ('tri', [c[1], c[2], c[3]])]
            elif kind == 'polygon':
                r = rng.random()
                if r < .4 and x + 1 < nx:       # two cells -> one hexagon
                    elems.append(('polygon', [c[0], c[1], idx(x + 2, y), idx(x + 2, y + 1), c[2], c[3]]))
                    x += 1
                elif r < .6:
                    elems += [('polygon', [c[0], c[1], c[2]]), ('polygon', [c[0], c[2], c[3]])]
                else:
                    elems.append(('polygon', c))
            else:
                elems.append(('quad', c))
            x += 1
    A = rand_affine(rng)
    t = [F(rng.randint(-8, 8), 4) for _ in range(3)]
    if jit is None:
        jit = rng.random() < .4
    affine = not jit
    pos = {}
    for k, q in pts.items():
        v = [t[r] + sum(A[r][c] * q[c] for c in range(3)) for r in range(3)]
        if jit:
            v = [x + F(rng.randint(-1, 1), 16) for x in v]
        pos[k] = tuple(v)
    used = sorted({n for _, c in elems for n in c})
    id_list, id_style = G.random_ids(rng, len(used), id_style)
    rng.shuffle(id_list)
    ids = dict(zip(used, id_list))
    keys, order = G.order_ids(rng, used, ids, order)
    eids, _ = G.random_ids(rng, len(elems), rng.choice(['dense', 'sparse', 'large']))
    rng.shuffle(eids)
    blocks = {}
    for (ty, c), e in zip(elems, eids):
        blocks.setdefault(ty, []).append((e, [ids[n] for n in c]))
    for b in blocks.values():
        rng.shuffle(b)
    blocks = {t_: blocks[t_] for t_ in G.ELEMENT_TYPES if t_ in blocks}
    return {'kind': 'shell:' + kind, 'order': order, 'id_style': id_style, 'affine': affine, 'jittered': jit,
            'nodes': [(ids[k], pos[k]) for k in keys], 'blocks': blocks}


# ------------------------------------------------------------------------------------------ planar NON-CONVEX polygons
# A polygon element is a simple closed loop of nodes; nothing in the property (or in femio) restricts it to convex loops, loops
# without collinear nodes, or loops listed from a "good" node.  Regions of grid cells (polyominoes: L, U, T, Z, plus, comb ...) have
# an area that needs no formula at all - the number of cells - and their boundary through EVERY grid vertex is a polygon with
# collinear (hanging) nodes, as the cells of a conforming polygonal mesh next to finer neighbours have.

def boundary_loop(cells):
    """counter-clockwise boundary of a set of unit grid cells through every grid vertex on it, or None when the boundary is not
    ONE simple loop (a hole, or two cells touching at a corner only)"""
    nxt = {}
    for (x, y) in cells:
        for a, b, nb in (((x, y), (x + 1, y), (x, y - 1)), ((x + 1, y), (x + 1, y + 1), (x + 1, y)),
                         ((x + 1, y + 1), (x, y + 1), (x, y + 1)), ((x, y + 1), (x, y), (x - 1, y))):
            if nb not in cells:
                if a in nxt:
                    return None
                nxt[a] = b
    start = min(nxt)
    loop, v = [start], nxt[start]
    while v != start:
        loop.append(v)
        v = nxt[v]
    return loop if len(loop) == len(nxt) else None


def grow_region(rng, free, size):
    """a random region of <= size edge-connected cells of `free` whose boundary is one simple loop"""
    cells = {rng.choice(sorted(free))}
    for _ in range(8 * size):
        if len(cells) >= size:
            break
        x, y = rng.choice(sorted(cells))
        dx, dy = rng.choice([(1, 0), (-1, 0), (0, 1), (0, -1)])
        c = (x + dx, y + dy)
        if c in free and c not in cells and boundary_loop(cells | {c}) is not None:
            cells.add(c)
    return cells


NAMED_REGIONS = {      # (a part of) the classical shapes; the tiling generator completes them to a rectangle
    'L': [(0, 0), (1, 0), (0, 1)], 'U': [(0, 0), (1, 0), (2, 0), (0, 1), (2, 1)], 'T': [(0, 1), (1, 1), (2, 1), (1, 0)],
    'plus': [(1, 0), (0, 1), (1, 1), (2, 1), (1, 2)], 'Z': [(0, 1), (1, 1), (1, 0), (2, 0)],
    'comb': [(0, 0), (1, 0), (2, 0), (3, 0), (4, 0), (0, 1), (2, 1), (4, 1)], 'long-L': [(0, 0), (1, 0), (2, 0), (3, 0), (0, 1), (0, 2)],
}


def is_collinear(a, b, c):
    return (b[0] - a[0]) * (c[1] - b[1]) == (b[1] - a[1]) * (c[0] - b[0])


def star_loop(rng):
    """a non-rectilinear simple polygon (arrow / dart / star): integer points in strictly increasing polar angle around the
    origin with alternating long / short radii; star-shaped from the origin, so its area is the sum of the (all positive)
    triangles (0, v_i, v_i+1); returns (loop, exact area)"""
    dirs = [(3, 0), (3, 1), (2, 2), (1, 3), (0, 3), (-1, 3), (-2, 2), (-3, 1), (-3, 0), (-3, -1), (-2, -2), (-1, -3), (0, -3), (1, -3),
            (2, -2), (3, -1)]
    while True:
        n = rng.randint(4, 9)
        pick = sorted(rng.sample(range(len(dirs)), n))
        loop = []
        for j, k in enumerate(pick):
            f = rng.choice([F(1, 3), F(2, 3), F(1)]) if j % 2 else rng.choice([F(1), F(4, 3), F(2)])
            loop.append((dirs[k][0] * f, dirs[k][1] * f))
        tri = [loop[i - 1][0] * loop[i][1] - loop[i - 1][1] * loop[i][0] for i in range(n)]
        if all(t > 0 for t in tri):       # consecutive directions less than 180 degrees apart: the origin sees every edge
            return loop, sum(tri) / 2


def gen_polytile(rng, nx=None, ny=None, named=None, id_style=None, order=None):
    """conforming PLANAR shell mesh made of polygon cells that are in general NOT convex: an nx x ny grid of unit cells is
    partitioned into random simply connected regions (`named`: the first region is that classical shape); a region becomes one
    polygon element through every grid vertex of its boundary (collinear / hanging nodes; each collinear node is dropped with
    probability 1/2 in half of the meshes), single cells also become a quad or two tris.  Every polygon is listed from a RANDOM
    start node, counter-clockwise.  One extra arrow / star polygon (not rectilinear) lies next to the grid.  The whole plane is
    mapped to 3-D by a random dyadic affine map.  m['exact'] = {element: exact area^2}; m['plane_normal'] = the un-normalised
    normal every element must have; the grid part tiles a parallelogram of area nx * ny * |A e_x x A e_y|."""
    if named:
        w = max(x for x, _ in NAMED_REGIONS[named]) + 1
        h = max(y for _, y in NAMED_REGIONS[named]) + 1
        nx, ny = max(nx or 0, w + rng.randint(0, 1)), max(ny or 0, h + rng.randint(0, 1))
    else:
        nx, ny = nx or rng.randint(2, 4), ny or rng.randint(2, 3)
    free = {(x, y) for x in range(nx) for y in range(ny)}
    regions = []
    if named:
        regions.append(set(NAMED_REGIONS[named]))
        free -= regions[0]
    while free:
        reg = grow_region(rng, free, rng.choice([1, 2, 3, 3, 4, 5, 6]))
        regions.append(reg)
        free -= reg
    keep_all = rng.random() < .5
    elems, cells_of = [], []
    for reg in regions:
        loop = boundary_loop(reg)
        assert loop is not None
        if len(reg) == 1 and rng.random() < .5:
            if rng.random() < .5:
                elems.append(('quad', loop))
                cells_of.append(F(1))
            else:
                elems += [('tri', [loop[0], loop[1], loop[2]]), ('tri', [loop[0], loop[2], loop[3]])]
                cells_of += [F(1, 2), F(1, 2)]
            continue
        if not keep_all:
            n = len(loop)
            loop = [v for i, v in enumerate(loop) if not (is_collinear(loop[i - 1], v, loop[(i + 1) % n]) and rng.random() < .5)]
        r = rng.randrange(len(loop))
        elems.append(('polygon', loop[r:] + loop[:r]))
        cells_of.append(F(len(reg)))
    star, star_area = star_loop(rng)
    off = (F(nx + 4), F(rng.randint(0, 2)))
    star = [(x + off[0], y + off[1]) for x, y in star]
    r = rng.randrange(len(star))
    elems.append(('polygon', star[r:] + star[:r]))
    cells_of.append(star_area)
    A = rand_affine(rng)
    t = [F(rng.randint(-8, 8), 4) for _ in range(3)]
    cx, cy = F(nx + 6, 2), F(ny, 2)                                # centre the plane coordinates
    verts = sorted({v for _, c in elems for v in c})
    pos = {v: tuple(t[r_] + A[r_][0] * (v[0] - cx) + A[r_][1] * (v[1] - cy) for r_ in range(3)) for v in verts}
    N = _cross([A[r_][0] for r_ in range(3)], [A[r_][1] for r_ in range(3)])
    assert any(x != 0 for x in N)
    id_list, id_style = G.random_ids(rng, len(verts), id_style)
    rng.shuffle(id_list)
    ids = dict(zip(verts, id_list))
    keys, order = G.order_ids(rng, verts, ids, order)
    eids, _ = G.random_ids(rng, len(elems), rng.choice(['dense', 'sparse', 'large']))
    rng.shuffle(eids)
    blocks, exact = {}, {}
    nn = sum(x * x for x in N)
    for (ty, c), e, a in zip(elems, eids, cells_of):
        blocks.setdefault(ty, []).append((e, [ids[v] for v in c]))
        exact[e] = a * a * nn
        # self-check of the generator: the cell count (or the star's triangle sum) is the polygon's area (2-D shoelace)
        assert sum(c[i - 1][0] * c[i][1] - c[i - 1][1] * c[i][0] for i in range(len(c))) == 2 * a
    for b in blocks.values():
        rng.shuffle(b)
    blocks = {t_: blocks[t_] for t_ in G.ELEMENT_TYPES if t_ in blocks}
    return {'kind': 'shell:polytile', 'order': order, 'id_style': id_style, 'affine': True, 'jittered': False,
            'nodes': [(ids[k], pos[k]) for k in keys], 'blocks': blocks, 'exact': exact, 'plane_normal': N,
            'reversed': [], 'tiles': str(nx * ny), 'star': eids[len(elems) - 1], 'named': named,
            'hanging': 'all grid vertices' if keep_all else 'some dropped'}


def all_listings(m, rng=None, max_per_polygon=None):
    """the same planar mesh in which every polygon element is replaced by ALL its listings: from every start node, in both
    orientations (a reversed listing has the opposite normal and the same area)"""
    out = dict(m)
    eid = max(e for b in m['blocks'].values() for e, _ in b) + 1
    rows, exact, rev = [], {}, []
    for e, c in m['blocks'].get('polygon', []):
        ls = [(k, r) for k in range(len(c)) for r in (False, True)]
        if max_per_polygon and len(ls) > max_per_polygon:
            ls = rng.sample(ls, max_per_polygon)
        for k, r in ls:
            row = c[k:] + c[:k]
            if r:
                row = [row[0]] + row[:0:-1]
                rev.append(eid)
            rows.append((eid, row))
            exact[eid] = m['exact'][e]
            eid += 1
    out['blocks'] = {t: (rows if t == 'polygon' else b) for t, b in m['blocks'].items()}
    out['exact'] = {**{e: a for e, a in m['exact'].items() if e not in dict(m['blocks'].get('polygon', []))}, **exact}
    out['reversed'] = rev
    out['kind'] = 'shell:polytile:all-listings'
    return out


def polytile_json(m):
    return G.to_json(m) | {'exact': {str(e): str(a) for e, a in m['exact'].items()}, 'plane_normal': [str(x) for x in m['plane_normal']],
                           'reversed': list(m['reversed']), 'tiles': m['tiles'], 'star': m['star']}


def polytile_from_json(j):
    m = G.from_json(j)
    m['blocks'] = {t: m['blocks'][t] for t in G.ELEMENT_TYPES if t in m['blocks']}
    m.update(exact={int(e): F(a) for e, a in j['exact'].items()}, plane_normal=[F(x) for x in j['plane_normal']],
             reversed=list(j['reversed']), tiles=j['tiles'], star=j['star'], affine=True, jittered=False)
    return m


def check_polygon_exact(m):
    """planar polygon cells (non-convex, hanging nodes, any start node, both orientations; tri / quad cells next to them): in
    EVERY mode the area is the exact area of the cell, the normal is the unit normal of the plane (negated for a reversed
    listing), calculate_element_metrics returns the same areas, and the cells of the grid part add up to the parallelogram"""
    out = []
    sc = scale_of(m)
    tys = mesh_types(m)
    type_of = {e: t for t, b in m['blocks'].items() for e, c in b}
    conn = {e: c for b in m['blocks'].values() for e, c in b}
    N = [float(x) for x in m['plane_normal']]
    nn = math.sqrt(sum(x * x for x in N))
    unit = [x / nn for x in N]
    rev = set(m['reversed'])
    want = {e: sqrtF(a) for e, a in m['exact'].items()}
    for api in ('area', 'metric', 'normal'):
        for mode in (MODES if api != 'metric' else [None]):
            try:
                v = evaluate(m, api, mode)
            except Exception as e:
                out.append((f'polygon-exact:{api}:raises', f'{api} (mode={mode}) of a planar mesh with non-convex polygon cells raises '
                            f'{type(e).__name__}', {'error': repr(e)[:300]}))
                continue
            bad = []
            for e, a in v.items():
                t = type_of[e]
                emode = (mode or 'centroid') if len(tys) == 1 else 'centroid'
                if api == 'normal':
                    raw = 2 * want[e] / max(1, len(conn[e]) - 2)
                    if raw < RAW_NORMAL_MIN:
                        continue
                    tol = 4 * normal_tol(t, emode, sc, raw)
                    w = [-x for x in unit] if e in rev else unit
                    if not all(abs(x - y) <= tol for x, y in zip(w, a)):
                        bad.append((e, w, a))
                elif not abs(a - want[e]) <= 4 * tol_for(t, emode) * sc ** 2:
                    bad.append((e, want[e], a))
            if bad:
                e = bad[0][0]
                same = sorted({repr(round(v[e2], 9)) if api != 'normal' else repr([round(x, 6) for x in v[e2]])
                               for e2 in v if sorted(conn[e2]) == sorted(conn[e])})
                out.append((f'polygon-exact:{api}:{"mixed" if len(tys) > 1 else tys[0]}',
                            f'{api} (mode={mode}) of {len(bad)} planar {type_of[e]} cell(s) differs from the exact value '
                            f'(cell {e}: {len(conn[e])} nodes listed {conn[e]}, {"reversed" if e in rev else "counter-clockwise"}; '
                            f'distinct values over the listings of this cell in the mesh: {same[:6]}; mesh types {"+".join(tys)})',
                            {'element_expected_got': bad[:5], 'mode': mode, 'scale': sc}))
                break
    if m['kind'].endswith('polytile'):          # the grid part tiles a parallelogram (the last polygon is the star next to it)
        v = evaluate(m, 'area', 'centroid')
        grid = [e for e in v if e != m['star']]
        total = sum(v[e] for e in grid)
        box = float(F(m['tiles'])) * nn
        if not abs(total - box) <= 4 * TOL64 * sc ** 2 * len(grid):
            out.append(('polygon-exact:tiling-sum', f'the areas of the cells tiling a parallelogram sum to {total!r}, the parallelogram '
                        f'has area {box!r}', {'sum': total, 'box': box}))
    return out


def planar_cells(rng, ty, n_elem, style='frustum'):
    """straight, planar-faced but NOT affine cells, all coordinates dyadic; returns the mesh and the exact signed volumes
    (divergence theorem over the planar faces).
    style 'frustum': truncated cones over a planar convex base (top face = homothetic image of the base: end faces PARALLEL).
    style 'cut'    : end faces NOT parallel (hex, prism):
        prism 'extruded': a triangle in z = 0 extruded along z to three different heights h1, h2, h3 > 0 (lateral quads are
                          vertical, hence planar; volume = base area * (h1 + h2 + h3) / 3, asserted exactly here);
        prism 'cone'    : top_i = O + lam_i (base_i - O) with three different lam_i (each lateral quad lies in the plane
                          through O and a base edge; lateral edges concurrent instead of parallel);
        hex             : a convex quad in z = 0 extruded along z up to the oblique plane z = a + b x + c y, (b, c) != 0.
      The connectivity starts at a random corner (cyclic shift of both end faces, orientation unchanged).
    Every reference cell is then mapped by a random dyadic affine map with det >= 1/4 (rotation / shear / scaling /
    translation keep faces planar and keep non-parallel faces non-parallel)."""
    nodes, rows, exact = [], [], {}
    nid = 0
    if style == 'cut':
        return _planar_cut_cells(rng, ty, n_elem)
    for k in range(n_elem):
        d = [F(rng.randint(0, 3), 8) for _ in range(4)]
        quad = [(F(0) - d[0], F(0) - d[1], F(0)), (F(1) + d[1], F(0) - d[2], F(0)), (F(1) + d[2], F(1) + d[3], F(0)),
                (F(0) - d[3], F(1) + d[0], F(0))]               # convex, counter-clockwise seen from +z
        O = (F(rng.randint(0, 8), 8), F(rng.randint(0, 8), 8), F(rng.randint(4, 12), 4))
        lam = rng.choice([F(1, 2), F(3, 4), F(1, 4)])

        def top(q):
            return tuple(O[j] + lam * (q[j] - O[j]) for j in range(3))
        if ty == 'hex':
            ref = quad + [top(q) for q in quad]
        elif ty == 'pyr':
            ref = quad + [O]
        else:                                                    # femio's prism: bottom triangle clockwise seen from the top
            tri = [quad[0], quad[2], quad[1]]
            ref = tri + [top(q) for q in tri]
        while True:
            A = [[F(rng.randint(-8, 8), 4) for _ in range(3)] for _ in range(3)]
            if G.det3(*A) >= F(1, 4):
                break
        t = [F(rng.randint(-8, 8), 4) for _ in range(3)]
        pts = [tuple(t[r] + sum(A[r][c] * q[c] for c in range(3)) for r in range(3)) for q in ref]
        ids = list(range(nid + 1, nid + len(pts) + 1))
        nid += len(pts)
        nodes += list(zip(ids, pts))
        rows.append((k + 1, ids))
        vol = F(0)
        for f in G.FACES[ty]:
            for i in range(1, len(f) - 1):
                vol += G.det3(pts[f[0]], pts[f[i]], pts[f[i + 1]])
        exact[k + 1] = vol / 6
    rng.shuffle(nodes)
    return {'kind': 'planar:' + ty, 'order': 'shuf', 'id_style': 'dense', 'nodes': nodes, 'blocks': {ty: rows}}, exact


def _planar_cut_cells(rng, ty, n_elem):
    assert ty in ('hex', 'prism')
    nodes, rows, exact, sub = [], [], {}, []
    nid = 0
    for k in range(n_elem):
        d = [F(rng.randint(0, 3), 8) for _ in range(4)]
        quad = [(F(0) - d[0], F(0) - d[1], F(0)), (F(1) + d[1], F(0) - d[2], F(0)), (F(1) + d[2], F(1) + d[3], F(0)),
                (F(0) - d[3], F(1) + d[0], F(0))]               # convex, counter-clockwise seen from +z
        closed = None
        if ty == 'hex':
            variant = 'oblique-plane'
            a = rng.choice([F(1), F(3, 2), F(2)])
            while True:
                b, c = (F(rng.randint(-2, 2), 8) for _ in range(2))
                if (b, c) != (0, 0):
                    break
            r = rng.randrange(4)
            base = [quad[(i + r) % 4] for i in range(4)]
            top = [(q[0], q[1], a + b * q[0] + c * q[1]) for q in base]
            assert all(q[2] >= F(1, 4) for q in top)
        else:
            tri = [quad[0], quad[2], quad[1]]                    # femio's prism: bottom triangle clockwise seen from the top
            r = rng.randrange(3)
            base = [tri[(i + r) % 3] for i in range(3)]
            variant = rng.choice(['extruded', 'cone'])
            if variant == 'extruded':
                h = rng.sample([F(n, 8) for n in range(2, 17)], 3)              # three different heights in [1/4, 2]
                top = [(q[0], q[1], hh) for q, hh in zip(base, h)]
                cr = _cross(G.sub(base[2], base[0]), G.sub(base[1], base[0]))    # counter-clockwise order: +z
                closed = cr[2] / 2 * sum(h) / 3
            else:
                O = (F(rng.randint(0, 8), 8), F(rng.randint(0, 8), 8), F(rng.randint(4, 12), 4))
                lam = rng.sample([F(1, 4), F(3, 8), F(1, 2), F(5, 8), F(3, 4)], 3)
                top = [tuple(O[j] + l * (q[j] - O[j]) for j in range(3)) for q, l in zip(base, lam)]
        ref = base + top
        while True:
            A = [[F(rng.randint(-8, 8), 4) for _ in range(3)] for _ in range(3)]
            if G.det3(*A) >= F(1, 4):
                break
        t = [F(rng.randint(-8, 8), 4) for _ in range(3)]
        pts = [tuple(t[r_] + sum(A[r_][c_] * q[c_] for c_ in range(3)) for r_ in range(3)) for q in ref]
        # generator self-checks (exact): every face planar, end faces not parallel, closed form of the extruded wedge
        for f in G.FACES[ty]:
            if len(f) == 4:
                assert G.det3(G.sub(pts[f[1]], pts[f[0]]), G.sub(pts[f[2]], pts[f[0]]), G.sub(pts[f[3]], pts[f[0]])) == 0
        nb, nt = (_cross(G.sub(pts[o + 1], pts[o]), G.sub(pts[o + 2], pts[o])) for o in (0, len(base)))
        assert any(x != 0 for x in _cross(nb, nt))
        ids = list(range(nid + 1, nid + len(pts) + 1))
        nid += len(pts)
        nodes += list(zip(ids, pts))
        rows.append((k + 1, ids))
        vol = F(0)
        for f in G.FACES[ty]:
            for i in range(1, len(f) - 1):
                vol += G.det3(pts[f[0]], pts[f[i]], pts[f[i + 1]])
        exact[k + 1] = vol / 6
        assert exact[k + 1] > 0 and (closed is None or exact[k + 1] == closed * G.det3(*A))
        sub.append(variant)
    rng.shuffle(nodes)
    return {'kind': 'planar-cut:' + ty, 'order': 'shuf', 'id_style': 'dense', 'nodes': nodes, 'blocks': {ty: rows},
            'variants': sub}, exact


def check_modes_planar(m, exact):
    out = []
    sc = scale_of(m)
    (ty, rows), = m['blocks'].items()
    for mode in MODES:
        v = evaluate(m, 'volume', mode)
        for e, _ in rows:
            if not abs(v[e] - float(exact[e])) <= 4 * tol_for(ty, mode) * sc ** 3:
                out.append((f'modes-planar:volume:{ty}', f'volume of a planar-faced {ty} ({m.get("kind", "planar")}) in mode {mode} '
                            f'differs from its exact volume',
                            {'element': e, 'mode': mode, 'got': v[e], 'exact': float(exact[e])}))
                break
    return out


def to_polyhedron_mesh(m):
    """the same solid cells as polyhedra with explicit (outward) faces"""
    rows, faces = [], {}
    for t, b in m['blocks'].items():
        for e, c in b:
            rows.append((e, list(c)))
            faces[e] = [[c[i] for i in f] for f in G.FACES[t]]
    out = dict(m)
    out.update(blocks={'polyhedron': rows}, faces=faces, kind='polyhedron<-' + m['kind'])
    return out


# ------------------------------------------------------------------------------------------ transforms

def rot_from_quaternion(a, b, c, d):
    n = a * a + b * b + c * c + d * d
    M = [[a * a + b * b - c * c - d * d, 2 * (b * c - a * d), 2 * (b * d + a * c)],
         [2 * (b * c + a * d), a * a - b * b + c * c - d * d, 2 * (c * d - a * b)],
         [2 * (b * d - a * c), 2 * (c * d + a * b), a * a - b * b - c * c + d * d]]
    return [[F(x, n) for x in r] for r in M]


def rand_rotation(rng):
    while True:
        q = [rng.randint(-4, 4) for _ in range(4)]
        if sum(x * x for x in q) > 0 and sum(1 for x in q if x) >= 2:
            return rot_from_quaternion(*q)


def apply_linear(m, A, t=(0, 0, 0)):
    out = dict(m)
    out['nodes'] = [(i, tuple(sum(A[r][c] * p[c] for c in range(3)) + t[r] for r in range(3))) for i, p in m['nodes']]
    return out


ABS_SCALES = [F(1, 2 ** 13), F(1, 2 ** 10), F(2 ** 10)]       # ~1.2e-4 (0.1 mm in metres), ~1e-3 (mm in metres), ~1e3
RAW_NORMAL_MIN = 1e-9      # see ASSUMPTIONS: unit normals are asserted for |un-normalised normal| >= 1e-9 (clamp range: < 1e-10)


def scaled_mesh(m, s):
    """the mesh under the uniform scaling by the (dyadic, hence exactly representable) factor s"""
    out = apply_linear(m, [[F(s) * int(r == c) for c in range(3)] for r in range(3)])
    out['abs_scale'] = str(s)
    return out


def raw_normal_len(m):
    """element id -> length of the SHORTEST un-normalised vector a normal kernel of femio hands to functions.normalize for this
    element: V = sum_i p[i-1] x p[i] (twice the vector area; tri, quad linear / centroid, polygon centroid) or V / (n - 2) (polygon
    fan kernel: mean of the n - 2 triangle cross products).  Used only to decide whether the element is inside the range in which
    normalize() does not clamp (ASSUMPTIONS); never compared with a result."""
    pos = dict(m['nodes'])
    out = {}
    for t, b in m['blocks'].items():
        for e, c in b:
            p = [pos[n] for n in c]
            V = (F(0), F(0), F(0))
            for i in range(len(p)):
                cr = _cross(p[i - 1], p[i])
                V = tuple(a + b_ for a, b_ in zip(V, cr))
            out[e] = sqrtF(sum(x * x for x in V)) / max(1, len(p) - 2)
    return out


def make_transform(rng, m, kind, unit=1):
    """a JSON-able transform description; `unit` = absolute length scale of the mesh (translations are drawn in this unit so
    that the translated mesh stays at the same absolute scale and the scale-relative tolerances stay meaningful)"""
    unit = F(unit)
    if kind == 'relabel':
        nid = [i for i, _ in m['nodes']]
        new, _ = G.random_ids(rng, len(nid), rng.choice(['sparse', 'large', 'dense', 'huge']))
        rng.shuffle(new)
        eid = [e for b in m['blocks'].values() for e, _ in b]
        newe, _ = G.random_ids(rng, len(eid), rng.choice(['sparse', 'large', 'dense']))
        rng.shuffle(newe)
        return {'kind': kind, 'nodes': list(zip(nid, new)), 'elems': list(zip(eid, newe))}
    if kind == 'storage':
        nid = [i for i, _ in m['nodes']]
        rng.shuffle(nid)
        blocks = {}
        for t, b in m['blocks'].items():
            o = [e for e, _ in b]
            rng.shuffle(o)
            blocks[t] = o
        return {'kind': kind, 'node_order': nid, 'block_order': blocks}
    if kind == 'rigid':
        R = rand_rotation(rng)
        return {'kind': kind, 'A': [[str(x) for x in r] for r in R], 't': [str(unit * F(rng.randint(-16, 16), 4)) for _ in range(3)]}
    if kind == 'translate':
        I = [[F(int(r == c)) for c in range(3)] for r in range(3)]
        return {'kind': kind, 'A': [[str(x) for x in r] for r in I], 't': [str(unit * F(rng.randint(-32, 32), 8)) for _ in range(3)]}
    if kind == 'rescale':
        # uniform scaling across orders of magnitude (back to unit size, or to another absolute scale): exact power of two
        s = 1 / unit if (unit != 1 and rng.random() < .5) else F(2) ** rng.choice([-13, -10, -7, 7, 10])
        return {'kind': kind, 'A': [[str(s * int(r == c)) for c in range(3)] for r in range(3)], 't': ['0', '0', '0'],
                's': str(s)}
    if kind == 'scale':
        s = rng.choice([F(1, 2), F(2), F(3), F(3, 2), F(1, 4), F(5, 4)])
        return {'kind': kind, 'A': [[str(s * int(r == c)) for c in range(3)] for r in range(3)], 't': ['0', '0', '0'],
                's': str(s)}
    if kind == 'relist':
        # the same elements listed from another start node and / or in the opposite orientation (shell cells only): the shape
        # is the same, the orientation (normal) is opposite for a reversed listing
        how = {}
        for t, b in m['blocks'].items():
            for e, c in b:
                how[e] = [rng.randrange(len(c)), int(rng.random() < .4)]
        return {'kind': kind, 'how': [[e, k, r] for e, (k, r) in how.items()]}
    if kind == 'reflect':
        R = rand_rotation(rng)
        ax = rng.randrange(3)
        Q = [[R[r][c] * (-1 if c == ax else 1) for c in range(3)] for r in range(3)]
        return {'kind': kind, 'A': [[str(x) for x in r] for r in Q], 't': ['0', '0', '0']}
    raise ValueError(kind)


def apply_transform(m, tr):
    k = tr['kind']
    if k == 'relabel':
        nm = {a: b for a, b in tr['nodes']}
        em = {a: b for a, b in tr['elems']}
        out = dict(m)
        out['nodes'] = [(nm[i], p) for i, p in m['nodes']]
        out['blocks'] = {t: [(em[e], [nm[n] for n in c]) for e, c in b] for t, b in m['blocks'].items()}
        if 'faces' in m:
            out['faces'] = {em[e]: [[nm[n] for n in f] for f in fs] for e, fs in m['faces'].items()}
        return out, em
    if k == 'relist':
        how = {e: (s_, r) for e, s_, r in tr['how']}
        out = dict(m)
        out['blocks'] = {}
        for t, b in m['blocks'].items():
            rows = []
            for e, c in b:
                s_, r = how[e]
                row = list(c[s_:]) + list(c[:s_])
                rows.append((e, [row[0]] + row[:0:-1] if r else row))
            out['blocks'][t] = rows
        return out, None
    if k == 'storage':
        pos = dict(m['nodes'])
        out = dict(m)
        out['nodes'] = [(i, pos[i]) for i in tr['node_order']]
        out['blocks'] = {}
        for t, b in m['blocks'].items():
            d = dict(b)
            out['blocks'][t] = [(e, d[e]) for e in tr['block_order'][t]]
        return out, None
    A = [[F(x) for x in r] for r in tr['A']]
    t = [F(x) for x in tr['t']]
    return apply_linear(m, A, t), None


def expected_relation(tr, api, dim):
    """(factor on the metric, matrix applied to normals) for a linear transform"""
    k = tr['kind']
    if k in ('relabel', 'storage', 'relist'):
        return 1.0, None
    A = [[F(x) for x in r] for r in tr['A']]
    det = G.det3(*A)
    if k in ('scale', 'rescale'):
        s = F(tr['s'])
        return float(s ** dim), [[float(int(r == c)) for c in range(3)] for r in range(3)]
    # orthogonal: signed volumes pick up det = +-1; areas are absolute values; normals: det(Q) Q n
    f = float(det) if (api in ('volume', 'metric') and dim == 3) else 1.0
    N = [[float(det * A[r][c]) for c in range(3)] for r in range(3)]
    return f, N


# ------------------------------------------------------------------------------------------ the oracle

def check_metamorphic(m, tr, api, mode):
    """returns a list of (signature, what, observed) - empty when the property holds on this input"""
    dim = 2 if is_shell(m) else 3
    m2, emap = apply_transform(m, tr)
    v1 = evaluate(m, api, mode)
    try:
        v2 = evaluate(m2, api, mode)
    except Exception as e:      # the original mesh is accepted, its image is not: not invariant
        return [(f'raises:{tr["kind"]}:{api}', f'{api} (mode={mode}) raises {type(e).__name__} after "{tr["kind"]}" although the '
                 f'original mesh is accepted', {'error': repr(e)[:300]})]
    fac, N = expected_relation(tr, api, dim)
    sc = scale_of(m, m2)
    exact = tr['kind'] in ('relabel', 'storage')
    flipped = {e for e, _s, r in tr['how'] if r} if tr['kind'] == 'relist' else set()
    tys = mesh_types(m)
    bad = []
    type_of = {e: t for t, b in m['blocks'].items() for e, _ in b}
    out = []
    raw1 = raw2 = None
    if api == 'normal':
        # range in which functions.normalize does not clamp (ASSUMPTIONS): on a mesh of the `absolute-scale` stream elements
        # below it are skipped (counted by the caller); everywhere a normal inside the range must be a UNIT vector
        raw1, raw2 = raw_normal_len(m), raw_normal_len(m2)
        guard = 'abs_scale' in m or tr['kind'] == 'rescale'
        for mesh, vals, raw, which in ((m, v1, raw1, 'original'), (m2, v2, raw2, 'transformed')):
            tys_ = {e: t for t, b in mesh['blocks'].items() for e, _ in b}
            nu = []
            for e, a in vals.items():
                if raw[e] < RAW_NORMAL_MIN:
                    continue
                emode = mode if len(tys) == 1 else 'centroid'
                ln = math.sqrt(sum(x * x for x in a))
                if not abs(ln - 1.0) <= (2e-5 if (tys_[e], emode) in F32_NORMAL else 1e-7):
                    nu.append((e, ln, raw[e]))
            if nu:
                out.append((f'normal-unit:{"mixed" if len(tys) > 1 else tys[0]}',
                            f'normal (mode={mode}) of {len(nu)} element(s) of the {which} mesh is not a unit vector although the '
                            f'un-normalised normal is longer than {RAW_NORMAL_MIN:g} (mesh types {"+".join(tys)})',
                            {'element_length_rawlength': nu[:5], 'mesh': which, 'scale': scale_of(mesh)}))
                break
    for e, a in v1.items():
        e2 = emap[e] if emap else e
        if e2 not in v2:
            bad.append((e, a, None))
            continue
        b = v2[e2]
        t = type_of[e]
        emode = mode if (len(tys) == 1 or api == 'volume') else 'centroid'
        if api == 'normal':
            if guard and min(raw1[e], raw2[e2]) < RAW_NORMAL_MIN:
                continue
            tol = 1e-12 if exact else (2e-5 if (t, emode) in F32_NORMAL else 1e-7)
            want = a if N is None else [sum(N[r][c] * a[c] for c in range(3)) for r in range(3)]
            if e in flipped:
                want = [-x for x in want]
            if not all(abs(x - y) <= tol for x, y in zip(want, b)) or any(x != x for x in b):
                bad.append((e, want, b))
        else:
            tol = 1e-13 * sc ** dim if exact else 4 * tol_for(t, emode) * sc ** dim
            if not abs(fac * a - b) <= tol:
                bad.append((e, fac * a, b))
    if not bad:
        return out
    kinds = '+'.join(tys) if len(tys) > 1 else tys[0]
    sig = f'{tr["kind"]}:{api}:{"mixed" if len(tys) > 1 else kinds}'
    if exact and len(tys) > 1 and len(v1) == len(v2):
        # the same values, bound to other elements of the same type: the mixed-mesh assembly (finding C11-mixed-binding)
        def per_type(v, back):
            d = {}
            for e, x in v.items():
                d.setdefault(type_of[back(e)], []).append(x)
            return {t: sorted(map(repr, xs)) for t, xs in d.items()}
        inv = {b: a for a, b in emap.items()} if emap else None
        if per_type(v1, lambda e: e) == per_type(v2, (lambda e: inv[e]) if inv else (lambda e: e)):
            sig = f'mixed-binding:{api}'
    return out + [(sig, f'{api} (mode={mode}) of {len(bad)} element(s) changed under "{tr["kind"]}" beyond the tolerance '
                   f'(mesh types {kinds})', {'element_expected_got': bad[:5], 'scale': sc})]


def closed_form(t, p):
    """exact signed volume of an affine cell from its corner vectors"""
    if t == 'tet':
        return G.tet6(p) / 6
    if t == 'hex':
        return G.det3(G.sub(p[1], p[0]), G.sub(p[3], p[0]), G.sub(p[4], p[0]))
    if t == 'prism':
        return G.det3(G.sub(p[2], p[0]), G.sub(p[1], p[0]), G.sub(p[3], p[0])) / 2     # femio's prism orientation
    if t == 'pyr':
        return G.det3(G.sub(p[1], p[0]), G.sub(p[3], p[0]), G.sub(p[4], p[0])) / 3
    raise ValueError(t)


def check_modes_affine(m):
    """all modes agree on affine cells and equal the closed form"""
    out = []
    pos = dict(m['nodes'])
    sc = scale_of(m)
    if is_shell(m):
        vals = {mode: evaluate(m, 'area', mode) for mode in MODES}
        mixed = len(m['blocks']) > 1
        for t, b in m['blocks'].items():
            for e, c in b:
                p = [pos[n] for n in c]
                if t == 'polygon':
                    # a PLANAR simple polygon (the mesh is an affine image of a planar one): its area is the length of its vector
                    # area 1/2 sum p[i-1] x p[i] (the shoelace formula in the polygon's plane), whatever node it is listed from
                    V = (F(0), F(0), F(0))
                    for i in range(len(p)):
                        V = tuple(a + b_ for a, b_ in zip(V, _cross(p[i - 1], p[i])))
                    want = sqrtF(sum(x * x for x in V)) / 2
                else:
                    cr = _cross(G.sub(p[1], p[0]), G.sub(p[-1], p[0]))
                    want = math.sqrt(float(sum(x * x for x in cr))) * (0.5 if t == 'tri' else 1.0)
                for mode in MODES:
                    if not abs(vals[mode][e] - want) <= 4 * tol_for(t, 'centroid' if mixed else mode) * sc ** 2:
                        out.append((f'modes-affine:area:{t}', f'area of an affine {t} in mode {mode} differs from the closed form',
                                    {'element': e, 'mode': mode, 'got': vals[mode][e], 'closed_form': want}))
        return out
    vals = {mode: evaluate(m, 'volume', mode) for mode in MODES}
    for t, b in m['blocks'].items():
        if t not in ('tet', 'hex', 'prism', 'pyr'):
            continue
        for e, c in b:
            want = float(closed_form(t, [pos[n] for n in c]))
            for mode in MODES:
                if not abs(vals[mode][e] - want) <= 4 * tol_for(t, mode) * sc ** 3:
                    out.append((f'modes-affine:volume:{t}', f'volume of an affine {t} in mode {mode} differs from the closed form',
                                {'element': e, 'mode': mode, 'got': vals[mode][e], 'closed_form': want}))
    return out[:3]


def _cross(a, b):
    return (a[1] * b[2] - a[2] * b[1], a[2] * b[0] - a[0] * b[2], a[0] * b[1] - a[1] * b[0])


def brick_case(ty, n, L):
    import femio
    fd = G.quiet(femio.generate_brick, ty, n[0], n[1], n[2] if ty in ('tet', 'hex') else None,
                 x_length=float(L[0]), y_length=float(L[1]), z_length=float(L[2]))
    return fd


def check_brick(ty, n, L):
    """counts, all-positive, sum = box (every mode)"""
    out = []
    fd = brick_case(ty, n, L)
    dim = 3 if ty in ('tet', 'hex') else 2
    cells = n[0] * n[1] * (n[2] if dim == 3 else 1)
    want_n = cells * {'hex': 1, 'tet': 6, 'quad': 1, 'tri': 2}[ty]
    box = float(L[0] * L[1] * (L[2] if dim == 3 else 1))
    if len(fd.elements.ids) != want_n:
        out.append((f'brick-count:{ty}', f'generate_brick({ty!r}, {n}) has {len(fd.elements.ids)} elements, expected {want_n}',
                    {'n_elements': len(fd.elements.ids)}))
        return out
    sc = float(max(L))
    for mode in MODES:
        fd = brick_case(ty, n, L)
        try:
            if dim == 3:
                v = G.quiet(fd.calculate_element_volumes, mode=mode, raise_negative_volume=True)
            else:
                v = G.quiet(fd.calculate_element_areas, mode=mode, raise_negative_area=True, return_abs_area=False)
        except ValueError as e:
            out.append((f'brick-positive:{ty}', f'generate_brick({ty!r}, {n}): negative element ({mode})', {'error': str(e)[:200]}))
            continue
        v = np.asarray(v, float).ravel()
        tol = 4 * tol_for(ty, mode) * sc ** dim
        if not (v > 0).all():
            out.append((f'brick-positive:{ty}', f'generate_brick({ty!r}, {n}): non-positive metric ({mode})', {'min': float(v.min())}))
        if not abs(v.sum() - box) <= tol * max(1, len(v)):
            out.append((f'brick-sum:{ty}', f'generate_brick({ty!r}, {n}, lengths {[str(x) for x in L]}): metrics ({mode}) sum to {v.sum()!r}, box is {box!r}',
                        {'sum': float(v.sum()), 'box': box, 'mode': mode}))
    if dim == 2:      # normals of the flat brick: +z
        fd = brick_case(ty, n, L)
        nn = np.asarray(G.quiet(fd.calculate_element_normals), float)
        if not np.allclose(nn, [[0, 0, 1]] * len(nn), atol=1e-12):
            out.append((f'brick-normal:{ty}', 'normals of the flat brick are not +z', {'normals': nn[:3].tolist()}))
    return out


# ------------------------------------------------------------------------------------------ model ties

def enc_pts(pts):
    return C.enc_list(pts, lambda p: ' '.join(C.enc_rat(v) for v in p))


def sqrtF(q):
    """sqrt of a non-negative Fraction as float (correct to ~1 ulp also for huge numerators)"""
    q = F(q)
    if q == 0:
        return 0.0
    n, d = q.numerator, q.denominator
    k = max(0, (n.bit_length() - d.bit_length() - 2000)) // 2 * 2   # keep float(n / d) in range
    return math.sqrt(F(n >> k, d)) * 2.0 ** (k // 2) if k else math.sqrt(q)


def ptie_kernels(ctx, n_per):
    """tie P: every kernel / mode / type on random rational points"""
    jobs = [('volume', 'tet'), ('volume', 'tet2'), ('volume', 'hex'), ('volume', 'pyr'), ('volume', 'prism'),
            ('volume', 'hexprism'), ('area', 'tri'), ('area', 'quad'), ('area', 'polygon'),
            ('normal', 'tri'), ('normal', 'quad'), ('normal', 'polygon')]
    worst = {}
    for api, ty in jobs:
        m, meta = batch_mesh(ctx.rng, ty, n_per, ['random', 'shaped', 'random', 'affine'], poly_n=[3, 4, 5, 6, 7])
        pos = dict(m['nodes'])
        sc = scale_of(m)
        dim = 3 if api == 'volume' else 2
        for mode in MODES:
            real = evaluate(m, api, mode)
            cmd = {'volume': 'c11.vol', 'area': 'c11.area', 'normal': 'c11.normal'}[api]
            lines = [f'{cmd} {ty} {mode} {enc_pts([pos[n] for n in c])}' for _, c in m['blocks'][ty]]
            replies = ctx.driver.ask_many(lines)
            for (e, c), rep, style in zip(m['blocks'][ty], replies, meta):
                t = C.Toks(rep)
                if t.tok() != 'ok' or t.nat() != 1:
                    ctx.disagree(f'kernel {api}:{ty}:{mode}: model has no value', {'points': [[str(v) for v in pos[n]] for n in c]},
                                 real[e], rep)
                    continue
                key = (api, ty, mode, e)
                ctx.count(f'ptie:{api}:{ty}:{mode}')
                if api == 'volume':
                    ex = float(t.rat())
                    err = abs(real[e] - ex)
                    tol = tol_for(ty, mode) * sc ** 3
                    nontriv = abs(ex) > 1e-6
                elif api == 'area':
                    den = t.rat()
                    rads = t.lst(t.rat)
                    ex = sum(sqrtF(q) for q in rads) / float(den)
                    err = abs(real[e] - ex)
                    tol = tol_for(ty, mode) * sc ** 2
                    nontriv = ex > 1e-6
                else:
                    cvec = [t.rat() for _ in range(3)]
                    q = t.rat()
                    nq = sqrtF(q)
                    if nq < 1e-3:
                        ctx.count('ptie:normal:skipped-degenerate')
                        continue
                    ex = [float(x) / nq for x in cvec]
                    err = max(abs(a - b) for a, b in zip(real[e], ex))
                    tol = normal_tol(ty, mode, sc, nq)
                    nontriv = True
                ctx.case(key, sample={'tie': 'P', 'api': api, 'type': ty, 'mode': mode, 'style': style,
                                      'points': [[str(v) for v in pos[n]] for n in c][:4], 'impl': real[e],
                                      'model': ex} if mode == 'centroid' and len(ctx.samples) < 2 else None,
                         nontrivial=nontriv)
                worst[(api, ty, mode)] = max(worst.get((api, ty, mode), 0.0), err / tol if tol else 0.0)
                if not err <= tol:
                    ctx.disagree(f'kernel {api}:{ty}:{mode}', {'points': [[str(v) for v in pos[n]] for n in c], 'style': style},
                                 real[e], ex)
    # polyhedron kernels: random face lists (the kernels are polynomial identities for any face list)
    for mode in ['linear', 'centroid']:
        nodes, rows, faces = [], [], {}
        nid = 0
        for k in range(n_per):
            npt = ctx.rng.randint(4, 8)
            pts = [tuple(grid_coord(ctx.rng) for _ in range(3)) for _ in range(npt)]
            ids = list(range(nid + 1, nid + npt + 1))
            nid += npt
            nodes += list(zip(ids, pts))
            rows.append((k + 1, ids))
            faces[k + 1] = [ctx.rng.sample(ids, ctx.rng.randint(3, min(5, npt))) for _ in range(ctx.rng.randint(3, 6))]
        ctx.rng.shuffle(nodes)
        m = {'kind': 'batch:polyhedron', 'order': 'shuf', 'nodes': nodes, 'blocks': {'polyhedron': rows}, 'faces': faces}
        pos = dict(nodes)
        sc = scale_of(m)
        real = evaluate(m, 'volume', mode)
        lines = [f'c11.polyvol {mode} ' + C.enc_list(faces[e], lambda f: enc_pts([pos[n] for n in f])) for e, _ in rows]
        for (e, _), rep in zip(rows, ctx.driver.ask_many(lines)):
            t = C.Toks(rep)
            assert t.tok() == 'ok', rep
            ex = float(t.rat())
            tol = tol_for('polyhedron', mode) * sc ** 3
            ctx.case(('volume', 'polyhedron', mode, e), nontrivial=abs(ex) > 1e-6)
            ctx.count(f'ptie:volume:polyhedron:{mode}')
            worst[('volume', 'polyhedron', mode)] = max(worst.get(('volume', 'polyhedron', mode), 0.0), abs(real[e] - ex) / tol)
            if not abs(real[e] - ex) <= tol:
                ctx.disagree(f'kernel volume:polyhedron:{mode}', {'faces': [[[str(v) for v in pos[n]] for n in f] for f in faces[e]]},
                             real[e], ex)
    ctx.extra['ptie_worst_error_over_tolerance'] = {':'.join(k): round(v, 4) for k, v in sorted(worst.items())}
    ctx.extra['schwartz_zippel'] = {'N_points_per_kernel_mode': n_per, 'grid_side_S': S_GRID, 'degree': 3,
                                    'bound': f'(3/{S_GRID})^N per kernel for the purely random half of the points'}


def parse_mesh_reply(rep, api):
    t = C.Toks(rep)
    if t.tok() != 'ok':
        raise RuntimeError('driver: ' + rep[:200])
    out = {}
    for _ in range(t.nat()):
        e = t.nat()
        if t.nat() == 0:
            out[e] = None
        elif api == 'volume':
            out[e] = float(t.rat())
        elif api == 'area':
            den = t.rat()
            out[e] = sum(sqrtF(q) for q in t.lst(t.rat)) / float(den)
        else:
            c = [t.rat() for _ in range(3)]
            nq = sqrtF(t.rat())
            out[e] = [float(x) / nq for x in c] if nq > 0 else None
    return out


def mesh_tie(ctx, m, api, mode, mismatch):
    """tie D through the lookup + assembly; records per Cfg whether the model reproduces the implementation"""
    real = evaluate(m, api, mode)
    sc = scale_of(m)
    dim = 2 if is_shell(m) else 3
    cmd = {'volume': 'c11.meshvol', 'area': 'c11.mesharea', 'normal': 'c11.meshnormal'}[api]
    tys = mesh_types(m)
    type_of = {e: t for t, b in m['blocks'].items() for e, _ in b}
    for cfg in (0, 1):
        model = parse_mesh_reply(ctx.driver.ask(f'{cmd} {cfg} {mode} {G.enc_mesh(m)}'), api)
        bad = []
        for e, a in real.items():
            b = model.get(e)
            t = type_of[e]
            emode = mode if (len(tys) == 1 or api == 'volume') else 'centroid'
            if b is None:
                bad.append((e, a, b))
            elif api == 'normal':
                if max(abs(x - y) for x, y in zip(a, b)) > 1e-6:
                    bad.append((e, a, b))
            elif not abs(a - b) <= tol_for(t, emode) * sc ** dim:
                bad.append((e, a, b))
        if bad or set(model) != set(real):
            mismatch[cfg].append(({'mesh': G.to_json(m), 'api': api, 'mode': mode}, bad[:3]))


# ------------------------------------------------------------------------------------------ run

THEOREMS += [
    'C11_tet_translate',
    'C11_tet_linear',
    'C11_hexLin_translate',
    'C11_hexLin_linear',
    'C11_hexC_translate',
    'C11_hexC_linear',
    'C11_hexGauss_translate',
    'C11_hexGauss_linear',
    'C11_pyrLin_translate',
    'C11_pyrLin_linear',
    'C11_pyrC_translate',
    'C11_pyrC_linear',
    'C11_prismLin_translate',
    'C11_prismLin_linear',
    'C11_prismC_translate',
    'C11_prismC_linear',
    'C11_hexprism_translate',
    'C11_hexprism_linear',
    'C11_polyFan_linear',
    'C11_polyFan_translate',
    'C11_polyC_linear',
    'C11_det_scale',
    'C11_det_orthogonal',
    'C11_tri_cof',
    'C11_quadLin_cof',
    'C11_quadGauss_cof',
    'C11_quadC_cof',
    'C11_polygonFan_cof',
    'C11_polygonC_cof',
    'C11_radicand_orthogonal',
    'C11_radicand_scale',
    'C11_normal_rotates',
    'C11_shell_rads_rigid',
    'C11_hex_modes_agree_affine',
    'C11_prism_modes_agree_affine',
    'C11_pyr_modes_agree_affine',
    'C11_hexprism_extruded',
    'C11_shell_modes_agree_affine',
    'C11_relabel',
    'C11_storage_perm',
    'C11_storage_perm_mixed',
    'C11_mixed_counterexample_upstream',
    'C11_brick_count',
    'C11_brick_positive',
    'C11_brick_sum',
]
# Props/C11Modes.lean: polyhedron centroid kernel under translations; modes agree on planar-faced (non-affine) cells
THEOREMS += [
    'C11_polyC_shift',
    'C11_polyC_translate',
    'C11_polyC_translate_rat',
    'C11_face_tables_closed',
    'C11_hex_lin_centroid_defect',
    'C11_hex_lin_fan_defect',
    'C11_hexGauss_centroid_defect',
    'C11_prism_lin_centroid_defect',
    'C11_prism_lin_fan_defect',
    'C11_pyr_lin_centroid_defect',
    'C11_hex_modes_agree_planar',
    'C11_hexGauss_eq_centroid',
    'C11_hexGauss_modes_agree_planar',
    'C11_hex_planar_exact',
    'C11_prism_modes_agree_planar',
    'C11_pyr_modes_agree_planar',
    'C11_volume_hex_planar',
    'C11_volume_prism_pyr_planar',
    'C11_hex_modes_disagree_nonplanar',
    'C11_prism_pyr_modes_disagree_nonplanar',
    'C11_gaussP_inexact',
    'C11_hexGauss_literal_inexact',
]
# Props/C11History.lean (model: Model/GeomHistory.lean, driver command c11.seq): call histories on ONE object
THEOREMS += [
    'C11_hist_ratSgn_lawful',
    'C11_hist_areaSgn_lawful',
    'C11_hist_read_only',
    'C11_hist_signed_stable',
    'C11_hist_signed_after_abs',
    'C11_hist_values_are_query_values',
    'C11_hist_positive_invisible',
    'C11_hist_reflect_signed',
    'C11_hist_tree_example',
    'C11_hist_inplace_counterexample',
]


# ------------------------------------------------------------------------------------------ tie S (symbolic kernel tie)
# Props/KernelTie.lean: the polynomial traced from the real code by symbolic execution (harness/gen_kernels.py ->
# Gen/Kernels.lean, regenerated here on every run) equals the model kernel - one theorem per kernel x mode, proved by
# `ring`.  Built and audited SEPARATELY from LEAN_MODULES: when a formula of geometry_processor.py changes, only this
# module stops building; Props.C11 / the driver still build, so the P-tie localises the kernel and the oracle searches
# for the concrete failing input.
KT_MODULE = 'Femio.Props.KernelTie'
KT_KERNELS = ([f'vol_{t}_{m}' for t in ('tet', 'tet2', 'pyr', 'prism', 'hexprism') for m in MODES]
              + ['vol_hex_linear', 'vol_hex_centroid']
              + [f'vol_poly{t}_{m}' for t in ('Tet', 'Pyr') for m in MODES]
              + [f'area_tri_{m}' for m in MODES] + ['area_quad_linear', 'area_quad_centroid']
              + [f'area_polygon{n}_{m}' for n in (3, 5) for m in MODES]
              + [f'normal_{t}_{m}' for t in ('tri', 'quad') for m in MODES]
              + [f'normal_polygon{n}_{m}' for n in (3, 5) for m in MODES])
# KT_<kernel>: traced polynomial = model kernel over any commutative ring; KT_dispatch_<kernel>: the model's dispatch function
# (volume / volumePoly / area / normal over Rat, what the driver evaluates) at that type and mode = traced polynomial / den
EXTRA_THEOREMS = (['KT_integer_coefficients'] + ['KT_' + k for k in KT_KERNELS] + ['KT_dispatch_' + k for k in KT_KERNELS])


def _kt_kernel(thm):
    return thm[len('KT_dispatch_'):] if thm.startswith('KT_dispatch_') else thm[len('KT_'):]


def _kt_failing(out):
    """names of the KT_ theorems (or their sanity examples) at which `lake build Femio.Props.KernelTie` reported an error"""
    import re
    src = C.module_file(KT_MODULE)
    starts = []
    if src.exists():
        for i, line in enumerate(src.read_text().splitlines(), 1):
            mm = re.match(r'theorem\s+(KT_\w+)', line)
            if mm:
                starts.append((i, mm.group(1)))
    failing, other = {}, []
    for mm in re.finditer(r'^error: (\S+?\.lean):(\d+):\d+: (.*)$', out, re.M):
        f, ln, msg = mm.group(1), int(mm.group(2)), mm.group(3)
        name = None
        if f.endswith('Props/KernelTie.lean'):
            for i, nm in starts:
                if i <= ln:
                    name = nm
        if name:
            failing.setdefault(name, f'{f}:{ln}: {msg}'[:300])
        else:
            other.append(f'{f}:{ln}: {msg}'[:300])
    for name in [n for n in failing if not n.startswith('KT_dispatch_') and n != 'KT_integer_coefficients']:
        failing.setdefault('KT_dispatch_' + name[3:], f'rests on {name}, which failed')
    return failing, other


def kernel_tie(ctx):
    """EXTRA_OBLIGATIONS hook of main.py: regenerate Gen/Kernels.lean from the working tree, build + audit KernelTie"""
    import time
    ev = {'module': KT_MODULE, 'technique': 'symbolic execution of the real calculate_element_volumes / _areas / _normals on one '
          'element with symbolic coordinates; the traced polynomial = the model kernel is proved by `ring` on every run'}
    ctx.extra['kernel_tie'] = ev
    obl = []
    try:
        from . import gen_kernels as GK
        changed, info = GK.generate()
    except C.Timeout:
        raise
    except Exception as e:      # the translator itself is unavailable: recorded, not an alarm (the P-tie remains the tie)
        ev['unavailable'] = f'{type(e).__name__}: {e}'[:400]
        ctx.notes.append('kernel tie S unavailable (recorded only; tie P covers every kernel): ' + ev['unavailable'])
        return obl
    stale = set(info['stale'])
    ev.update(traced_symbolically=info['traced'], untraceable=info['untraceable'], non_integer=info['non_integer'],
              not_traced_by_design=info['not_traced_by_design'], patched_while_tracing=info['patched'],
              trace_s=info['trace_s'], regenerated=bool(changed), normalize_calls=info['normalize_calls'])
    if info['untraceable']:
        ctx.notes.append(f'kernel tie S: {len(info["untraceable"])} kernel(s) untraceable (recorded only; tie P remains their tie): '
                         + ', '.join(sorted(info['untraceable'])))
    if set(info['kernels']) != set(KT_KERNELS):
        ctx.notes.append('kernel tie S: kernel tables of gen_kernels.py and c11.py differ')
    ok, out, dt = C.lake_build([KT_MODULE])
    ev['build_s'] = round(dt, 1)
    ev['checker_cmd'] = f'cd lean && lake build {KT_MODULE} && lake env lean Femio/Audit/KernelTie.lean'
    live = [t for t in EXTRA_THEOREMS if _kt_kernel(t) not in stale]
    if ok:
        t0 = time.time()
        thms, raw, aok = C.audit('KernelTie')
        ev['audit_s'] = round(time.time() - t0, 1)
        obl.append((f'lean:build:{KT_MODULE}', True, ''))
        for name in live:
            full = [k for k in thms if k == name or k.endswith('.' + name)]
            if not full:
                obl.append((f'theorem:{name}', False, 'not found in the output of Femio/Audit/KernelTie.lean'))
                continue
            ax = thms[full[0]]
            bad = [a for a in ax if a not in C.ALLOWED_AXIOMS]
            obl.append((f'theorem:{name}', not bad, 'axioms: ' + ', '.join(ax) if ax else 'no axioms'))
        if ctx.tier == 'thorough':
            with C.build_lock():
                rc, lo = C.sh(['lake', 'env', 'leanchecker', KT_MODULE], cwd=C.LEAN, timeout=3000)
            obl.append((f'leanchecker:{KT_MODULE}', rc == 0, lo[-500:]))
        ev['proved'] = live
    else:
        failing, other = _kt_failing(out)
        failing = {k: v for k, v in failing.items() if _kt_kernel(k) not in stale}
        ev['failed'] = sorted(failing)
        obl.append((f'lean:build:{KT_MODULE}', False, '; '.join(sorted(failing)) + (' | ' + ' | '.join(other[:5]) if other else '')
                    or out[-600:]))
        for name, msg in sorted(failing.items()):
            obl.append((f'theorem:{name}', False, 'the polynomial traced from the working tree is not the model kernel: ' + msg))
        ctx.notes.append('kernel tie S BROKEN for ' + ', '.join(sorted(failing)) + ' - the code no longer computes the '
                         'polynomial of the model; tie P / the oracle below search for a concrete failing input')
    return obl


EXTRA_OBLIGATIONS = kernel_tie


def directed_mixed():
    """fixed mixed meshes whose type blocks are NOT stored in ascending id order and whose elements differ in size"""
    P = [(0, 0, 0), (1, 0, 0), (0, 1, 0), (0, 0, 1), (5, 0, 0), (7, 0, 0), (5, 2, 0), (5, 0, 2),
         (-4, 0, 0), (-3, 0, 0), (-3, 1, 0), (-4, 1, 0), (-4, 0, 1), (-3, 0, 1), (-3, 1, 1), (-4, 1, 1)]
    nodes = [(k + 1, tuple(F(x) for x in p)) for k, p in enumerate(P)]
    solid = {'kind': 'directed:tet+hex', 'order': 'asc', 'id_style': 'dense', 'nodes': nodes,
             'blocks': {'tet': [(2, [5, 6, 7, 8]), (1, [1, 2, 3, 4])], 'hex': [(3, list(range(9, 17)))]}}
    Q = [(0, 0, 0), (1, 0, 0), (0, 1, 0), (3, 0, 1), (6, 0, 1), (3, 2, 2), (-4, 0, 0), (-3, 0, 0), (-3, 1, 1), (-4, 1, 1)]
    nodes = [(10 * (k + 1), tuple(F(x) for x in p)) for k, p in enumerate(Q)]
    shell = {'kind': 'directed:tri+quad', 'order': 'asc', 'id_style': 'sparse', 'nodes': nodes,
             'blocks': {'tri': [(7, [40, 50, 60]), (4, [10, 20, 30])], 'quad': [(9, [70, 80, 90, 100])]}}
    return [(solid, ['volume']), (shell, ['area', 'normal'])]


def solid_mesh(ctx, kind):
    if kind == 'mixed':        # prefer jittered cells: equal-sized cells hide a wrong element <-> value binding
        for _ in range(6):
            m = G.gen_geometric(ctx.rng, kind=kind, max_cells=2)
            if m['jittered'] and len(m['blocks']) > 1:
                return m
        return m
    if kind == 'tet2':
        return G.promote_tet2(ctx.rng, G.gen_geometric(ctx.rng, kind='tet', max_cells=2, unref=True))
    return G.gen_geometric(ctx.rng, kind=kind, max_cells=2 if kind in ('tet', 'pyr', 'mixed') else 3)


def run(ctx):
    rng = ctx.rng
    np.random.seed(rng.randrange(2 ** 31))
    # ---- tie P
    if ctx.driver is not None:
        ptie_kernels(ctx, ctx.n(200, 2000))
    # ---- tie D (mesh level) + metamorphic oracle
    mismatch = {0: [], 1: []}
    kt_broken = bool(ctx.extra.get('kernel_tie', {}).get('failed'))     # a KT_ obligation failed: search harder, like oracle-only
    n_mesh = ctx.n(126, 700) if (ctx.driver is not None and not kt_broken) else ctx.n(250, 1400)
    kinds = ['tet', 'hex', 'mixed', 'prism', 'pyr', 'tet2', 'shell:tri', 'shell:quad', 'shell:mixed', 'shell:polygon',
             'polyhedron', 'mixed', 'shell:mixed', 'batch:hexprism', 'shell:polytile']
    trs = ['relabel', 'storage', 'rigid', 'translate', 'scale', 'reflect']
    directed = directed_mixed()
    for k in range(-len(directed), n_mesh):
        kind = kinds[k % len(kinds)] if k >= 0 else 'directed'
        if k < 0:
            m, apis = directed[k]
        elif kind == 'shell:polytile':
            m = gen_polytile(rng)
            apis = ['area', 'normal']
        elif kind.startswith('shell:'):
            m = gen_shell(rng, kind[6:], jit=True if kind == 'shell:mixed' and k % 2 else None)
            apis = ['area', 'normal']
        elif kind.startswith('batch:'):
            m, _ = batch_mesh(rng, kind[6:], rng.randint(1, 4), ['shaped', 'affine'])
            apis = ['volume']
        elif kind == 'polyhedron':
            m = to_polyhedron_mesh(G.gen_geometric(rng, kind=rng.choice(['tet', 'hex', 'prism', 'pyr', 'mixed']), max_cells=2))
            apis = ['volume']
        else:
            m = solid_mesh(ctx, kind)
            apis = ['volume']
        # a PLANAR shell mesh: every cell may be listed from any of its nodes, in either orientation
        planar_shell = kind.startswith('shell:') and m.get('affine') and not m.get('jittered')
        ctx.count('mesh:' + kind)
        ctx.count('order:' + str(m.get('order')))
        ctx.count('ids:' + str(m.get('id_style')))
        if len(m['blocks']) > 1:
            unsorted = any([e for e, _ in b] != sorted(e for e, _ in b) for b in m['blocks'].values())
            ctx.count('mixed-blocks:' + ('not-ascending' if unsorted else 'ascending'))
        for api in apis:
            for mode in (MODES if (k % 3 == 0 or not ctx.quick) else [rng.choice(MODES)]):
                if ctx.driver is not None and 'faces' not in m:
                    mesh_tie(ctx, m, api, mode, mismatch)
                    ctx.count(f'meshtie:{api}')
                for trk in trs + (['relist'] if planar_shell else []):
                    tr = make_transform(rng, m, trk)
                    res = check_metamorphic(m, tr, api, mode)
                    case = {'check': 'metamorphic', 'mesh': G.to_json(m) | ({'faces': m['faces']} if 'faces' in m else {}),
                            'transform': tr, 'api': api, 'mode': mode}
                    ctx.case((kind, k, api, mode, trk), sample={'check': 'metamorphic', 'mesh': G.describe(m), 'api': api,
                                                                'mode': mode, 'transform': trk}
                             if len(ctx.samples) < 5 else None)
                    ctx.count('oracle:' + trk)
                    for sig, what, obs in res:
                        ctx.fail(sig, what, case, obs)
        if m.get('affine') and not m.get('jittered') and 'faces' not in m and kind != 'tet2':
            for sig, what, obs in check_modes_affine(m):
                ctx.fail(sig, what, {'check': 'modes-affine', 'mesh': G.to_json(m)}, obs)
            ctx.case((kind, k, 'modes-affine'))
            ctx.count('oracle:modes-affine')
    # ---- straight, planar-faced, non-affine cells: all modes equal the exact volume
    for k in range(ctx.n(12, 90)):
        ty = ['hex', 'pyr', 'prism'][k % 3]
        m, exact = planar_cells(rng, ty, rng.randint(1, 4))
        ctx.case(('planar', k, ty), sample={'check': 'modes-planar', 'type': ty, 'n': len(exact)} if k == 0 else None)
        ctx.count('oracle:modes-planar:' + ty)
        for sig, what, obs in check_modes_planar(m, exact):
            ctx.fail(sig, what, {'check': 'modes-planar', 'mesh': G.to_json(m), 'exact': {str(e): str(v) for e, v in exact.items()}}, obs)
    # ---- the same with NON-parallel end faces (obliquely cut wedges / hexes): all modes equal the exact volume
    for k in range(ctx.n(16, 120)):
        ty = ['prism', 'hex', 'prism', 'prism'][k % 4]
        m, exact = planar_cells(rng, ty, rng.randint(1, 4), style='cut')
        ctx.case(('planar-cut', k, ty), sample={'check': 'modes-planar', 'class': 'non-parallel end faces', 'type': ty,
                                                'n': len(exact), 'variants': m['variants']} if k == 0 else None)
        ctx.count('oracle:modes-planar-cut:' + ty)
        for v in m['variants']:
            ctx.count(f'planar-cut:{ty}:{v}')
        for sig, what, obs in check_modes_planar(m, exact):
            ctx.fail(sig, what, {'check': 'modes-planar', 'mesh': G.to_json(m), 'exact': {str(e): str(v) for e, v in exact.items()}}, obs)
    # ---- which Cfg does the tree implement (mixed-mesh assembly)?
    if ctx.driver is not None:
        agree = [c for c in (0, 1) if not mismatch[c]]
        names = {0: 'upstream (values assigned by position inside the type block)', 1: 'fixed (assigned by element id)'}
        ctx.extra['cfg_detected'] = [names[c] for c in agree]
        ctx.extra['cfg_mismatches'] = {names[c]: len(mismatch[c]) for c in (0, 1)}
        found = any(f['signature'].startswith('mixed-binding:') for f in ctx.failures)
        if 1 not in agree and 0 in agree and found:
            # the model with Cfg.upstream reproduces the tree exactly and the oracle has produced the concrete failing
            # input (reported through ctx.fail): the correspondence itself is intact
            ctx.notes.append('tree implements Cfg.upstream (finding C11-mixed-binding): C11_storage_perm_mixed does not apply, '
                             'C11_mixed_counterexample_upstream does; failing inputs reported by the oracle')
        elif 1 not in agree:
            for case, bad in mismatch[1][:10]:
                ctx.disagree('per-element values differ from Cfg.fixed' + (' (tree behaves as Cfg.upstream)' if 0 in agree else ''),
                             case, bad, 'Cfg.fixed')
    # ---- bricks: tie D + counts / positivity / sums
    n_brick = ctx.n(40, 240)
    for k in range(n_brick):
        ty = ['hex', 'tet', 'quad', 'tri'][k % 4]
        n = [rng.randint(1, 4 if ctx.quick else 7) for _ in range(3)]
        L = [F(rng.randint(1, 24), rng.choice([1, 2, 4, 3, 10])) for _ in range(3)]
        case = {'check': 'brick', 'type': ty, 'n': n, 'lengths': [str(x) for x in L]}
        ctx.case(('brick', ty, tuple(n), tuple(L)), sample=case if k < 1 else None)
        ctx.count('brick:' + ty)
        for sig, what, obs in check_brick(ty, n, L):
            ctx.fail(sig, what, case, obs)
        if ctx.driver is not None:
            fd = brick_case(ty, n, L)
            rep = ctx.driver.ask(f'c11.brick {ty} {n[0]} {n[1]} {n[2]} ' + ' '.join(C.enc_rat(float(x)) for x in L))
            t = C.Toks(rep)
            if t.tok() != 'ok' or t.nat() != 1:
                raise RuntimeError('driver: ' + rep[:100])
            mn = t.lst(lambda: [float(t.rat()) for _ in range(3)])
            mc = t.lst(lambda: t.lst(t.nat))
            conn = [[int(x) for x in r] for r in fd.elements.data]
            if mc != conn or [int(i) for i in fd.nodes.ids] != list(range(1, len(mn) + 1)):
                ctx.disagree('generate_brick connectivity', case, conn[:4], mc[:4])
            elif not np.allclose(np.array(mn), fd.nodes.data, rtol=0, atol=1e-12 * float(max(L))):
                ctx.disagree('generate_brick positions', case, fd.nodes.data[:3].tolist(), mn[:3])
    # ---- generate_random_mesh (oracle only: scipy Delaunay is not modelled)
    import femio
    for k in range(ctx.n(6, 30)):
        ty = ['tet', 'tri'][k % 2]
        try:
            fd = G.quiet(femio.generate_random_mesh, ty, rng.randint(8, 30), noise_scale=rng.choice([.1, .3]))
        except Exception as e:  # Delaunay degeneracies are not part of the property
            ctx.count('random-mesh:generation-error:' + type(e).__name__)
            continue
        ctx.count('random-mesh:' + ty)
        pts = [tuple(F(float(x)) for x in p) for p in fd.nodes.data]
        m = {'kind': 'random:' + ty, 'order': 'asc', 'nodes': list(zip([int(i) for i in fd.nodes.ids], pts)),
             'blocks': {ty: [(int(e), [int(n) for n in c]) for e, c in zip(fd.elements.ids, fd.elements.data)]}}
        api = 'volume' if ty == 'tet' else 'area'
        if ty == 'tet':
            v = evaluate(m, 'volume', 'linear')
            if not all(x > 0 for x in v.values()):
                ctx.fail('random-mesh-positive:tet', 'generate_random_mesh returned a non-positive tet',
                         {'check': 'metamorphic', 'mesh': G.to_json(m), 'transform': make_transform(rng, m, 'storage'),
                          'api': 'volume', 'mode': 'linear'}, {'min': min(v.values())})
        for trk in ['relabel', 'storage', 'rigid']:
            tr = make_transform(rng, m, trk)
            ctx.case(('random', k, trk))
            for sig, what, obs in check_metamorphic(m, tr, api, 'linear'):
                ctx.fail(sig, what, {'check': 'metamorphic', 'mesh': G.to_json(m), 'transform': tr, 'api': api, 'mode': 'linear'}, obs)
    # ---- the same oracle at other ABSOLUTE scales (drawn last: the cases above are unchanged for a given seed)
    abs_scale_stream(ctx)
    # ---- planar non-convex polygon cells, every listing, exact areas
    polygon_stream(ctx)
    # ---- call histories on one live object (drawn last as well)
    sequence_stream(ctx)


def scaled_polytile(m, s):
    out = scaled_mesh(m, s)
    out['exact'] = {e: a * F(s) ** 4 for e, a in m['exact'].items()}
    out['plane_normal'] = [x * F(s) ** 2 for x in m['plane_normal']]
    return out


def polygon_stream(ctx):
    """stream `polygon` (inside the quantifier: element type polygon, every mode, "equal the closed-form value", "depend only on its
    shape and orientation"): planar tilings by NON-CONVEX polygon cells with hanging nodes (gen_polytile: the classical L / U / T /
    plus / Z / comb shapes first, then random regions; one arrow / star polygon each), as generated (every polygon listed from a
    random node; polygon-only or mixed with tri / quad cells), with every polygon replaced by ALL its listings (every start node x
    both orientations; polygon-only mesh = the mode is honoured; mixed mesh = femio uses its default mode), and at the absolute
    scales of the stream `absolute-scale`.  Asserted: area = exact area of the cell (cell count x the area factor of the affine
    map, a rational under a square root) in every mode and through calculate_element_metrics, normal = unit plane normal (negated
    for a reversed listing), the tiling adds up to the parallelogram."""
    rng = ctx.rng
    names = list(NAMED_REGIONS)
    for k in range(ctx.n(12, 80)):
        named = names[k] if k < len(names) else None
        base = gen_polytile(rng, named=named)
        variants = [('as-generated', base)]
        polys_only = dict(base, blocks={'polygon': base['blocks']['polygon']},
                          exact={e: base['exact'][e] for e, _ in base['blocks']['polygon']})
        used = {n for _, c in polys_only['blocks']['polygon'] for n in c}
        polys_only['nodes'] = [(i, p_) for i, p_ in base['nodes'] if i in used or rng.random() < .5]
        variants.append(('all-listings:polygon-only', all_listings(polys_only, rng, None if not ctx.quick else 16)))
        if len(base['blocks']) > 1:
            variants.append(('all-listings:mixed', all_listings(base, rng, 8)))
        if k % 3 == 2:
            s = ABS_SCALES[(k // 3) % len(ABS_SCALES)]
            variants = [(n_ + f':scale 2^{s.numerator.bit_length() - s.denominator.bit_length()}', scaled_polytile(m_, s))
                        for n_, m_ in variants]
        for name, m in variants:
            ctx.case(('polygon', k, name), sample={'check': 'polygon-exact', 'variant': name, 'mesh': G.describe(m), 'named': named,
                                                   'hanging_nodes': base['hanging']} if ctx.dist.get('polygon:meshes', 0) < 2 else None)
            ctx.count('polygon:meshes')
            ctx.count('polygon:variant:' + name.split(':scale')[0])
            ctx.count('polygon:cells', sum(len(b) for b in m['blocks'].values()))
            ctx.count('polygon:' + ('mixed with tri / quad' if len(m['blocks']) > 1 else 'polygon-only'))
            pos2 = None
            for e, c in m['blocks']['polygon']:
                ctx.count(f'polygon:nodes-per-polygon:{len(c) if len(c) < 12 else "12+"}')
            for sig, what, obs in check_polygon_exact(m):
                ctx.fail(sig, what, {'check': 'polygon-exact', 'variant': name, 'mesh': polytile_json(m)}, obs)


def abs_scale_stream(ctx):
    """stream `absolute-scale` (inside the quantifier: "every ... scale within the float range the method's precision supports"):
    the generator meshes of the main loop under an exact uniform scaling by 2^-13 / 2^-10 / 2^10 (0.1 mm and 1 mm cells in a model
    expressed in metres; kilometre-sized cells), then the metamorphic oracle at THAT absolute scale (translations drawn in the
    mesh's own unit, tolerances relative to max|p|^d of the scaled mesh, so nothing is hidden by an O(1) tolerance) plus
    `rescale`: a uniform scaling across orders of magnitude (back to unit size or to another absolute scale).  Normals are also
    required to be unit vectors (d = 0).  Tie D (`c11.mesh*`, exact over Rat) runs on the scaled mesh as well."""
    rng = ctx.rng
    kinds = ['shell:tri', 'shell:quad', 'tet', 'shell:polygon', 'shell:mixed', 'hex', 'shell:quad', 'shell:tri', 'mixed', 'prism',
             'shell:mixed', 'shell:polygon', 'tet2', 'pyr']
    trs = ['rigid', 'translate', 'scale', 'reflect', 'rescale', 'storage']
    mismatch = {0: [], 1: []}
    for k in range(ctx.n(56, 420) if ctx.driver is not None else ctx.n(112, 840)):
        kind = kinds[k % len(kinds)]
        s = ABS_SCALES[(k // len(kinds) * 2 + k) % len(ABS_SCALES)]
        if kind.startswith('shell:'):
            base = gen_shell(rng, kind[6:], jit=True if kind == 'shell:mixed' and k % 2 else None)
            apis = ['normal', 'area']
        else:
            base = solid_mesh(ctx, kind)
            apis = ['volume']
        m = scaled_mesh(base, s)
        ctx.count(f'absolute-scale:{kind}:2^{s.numerator.bit_length() - s.denominator.bit_length()}')
        if apis[0] == 'normal':
            below = sum(1 for v in raw_normal_len(m).values() if v < RAW_NORMAL_MIN)
            if below:
                ctx.count('absolute-scale:elements-below-the-clamp-range (normal not asserted)', below)
        for api in apis:
            for mode in (MODES if (k % 4 == 0 or not ctx.quick) else [rng.choice(MODES)]):
                if ctx.driver is not None:
                    mesh_tie(ctx, m, api, mode, mismatch)
                    ctx.count(f'meshtie:{api}:absolute-scale')
                for trk in trs:
                    tr = make_transform(rng, m, trk, unit=s)
                    case = {'check': 'metamorphic', 'mesh': G.to_json(m), 'abs_scale': str(s), 'transform': tr, 'api': api, 'mode': mode}
                    ctx.case(('abs', kind, k, api, mode, trk),
                             sample={'check': 'metamorphic', 'stream': 'absolute-scale', 'abs_scale': float(s), 'mesh': G.describe(m),
                                     'api': api, 'mode': mode, 'transform': trk} if ctx.dist.get('oracle:absolute-scale', 0) < 1 else None)
                    ctx.count('oracle:absolute-scale')
                    ctx.count('oracle:absolute-scale:' + trk)
                    for sig, what, obs in check_metamorphic(m, tr, api, mode):
                        ctx.fail(sig, what, case, obs)
        if base.get('affine') and not base.get('jittered') and kind != 'tet2':
            ctx.case(('abs', kind, k, 'modes-affine'))
            ctx.count('oracle:modes-affine:absolute-scale')
            for sig, what, obs in check_modes_affine(m):
                ctx.fail(sig, what, {'check': 'modes-affine', 'mesh': G.to_json(m)}, obs)
    if ctx.driver is not None:
        for case, bad in mismatch[1][:6]:
            if not mismatch[0] or not any(f['signature'].startswith('mixed-binding:') for f in ctx.failures):
                ctx.disagree('per-element values differ from Cfg.fixed on a uniformly scaled mesh (stream absolute-scale)',
                             {k_: v for k_, v in case.items() if k_ != 'mesh'} | {'mesh': case['mesh']}, bad, 'Cfg.fixed')


# ------------------------------------------------------------------------------------------ stream `sequence`: call histories on ONE live object
# Every evaluation above is made on a freshly built object.  Here 2-5 calls of calculate_element_volumes / _areas / _metrics /
# _normals with varying (mode, raise_negative_*, return_abs_*, elements, update) are made on ONE object holding a positively
# oriented / reflected / partly inverted mesh.  Each result is compared with (a) the same call on a freshly built equal object
# (the property: the value depends on shape and orientation only), (b) the exact model of the history (`c11.seq`,
# Model/GeomHistory.lean), and arrays returned by earlier calls, coordinates, connectivity and ids are snapshotted and must be
# bit-identical after every later call.  Interplay with the OPEN known finding of C19 `options-ignored:<query>` (DESIGN 5a): on the
# unchanged tree a call answered from the stored variable returns validate(options, stored) whatever mode / return_abs_* it asks
# for.  A step that differs from the fresh-object value but equals EXACTLY that value (computed here from the SNAPSHOT of what the
# storing call returned, never from the live object) is counted under `sequence:step:known:options-ignored:<api>` and not failed;
# a step that equals neither is a violation (seeded C11-5: the stored signed volumes of a mirrored mesh overwritten in place).

SEQ_KINDS = ['tet', 'hex', 'shell:tri', 'mixed', 'prism', 'shell:quad', 'pyr', 'tet2', 'shell:mixed', 'polyhedron', 'batch:hexprism',
             'shell:polygon', 'hex', 'tet']
ORIENTATIONS = ['reflected', 'partly-inverted', 'positive', 'reflected']
SIGNED_APIS = ('volume', 'area', 'metric')


def flip_element(t, c):
    """the same cell with the opposite orientation (a permutation of its connectivity)"""
    c = list(c)
    if t == 'tet':
        return [c[1], c[0]] + c[2:]
    if t == 'tet2':
        sig = [1, 0, 2, 3]
        ei = {frozenset(e): k for k, e in enumerate(G.TET2_EDGES)}
        return [c[sig[k]] for k in range(4)] + [c[4 + ei[frozenset((sig[i], sig[j]))]] for i, j in G.TET2_EDGES]
    if t == 'hex':
        return c[4:8] + c[0:4]
    if t == 'prism':
        return c[3:6] + c[0:3]
    if t == 'pyr':
        return [c[0], c[3], c[2], c[1], c[4]]
    if t == 'hexprism':
        return c[6:12] + c[0:6]
    if t in ('tri', 'quad', 'polygon'):
        return [c[0]] + c[:0:-1]
    return c


def oriented(rng, m, cls):
    """the mesh in one orientation class: positive (as generated) / reflected (exact rational improper rotation, connectivity
    untouched: every element negative) / partly-inverted (a random non-empty subset of the cells has its connectivity flipped)"""
    if cls == 'positive':
        out = dict(m)
    elif cls == 'reflected':
        out, _ = apply_transform(m, make_transform(rng, m, 'reflect'))
    else:
        eids = [e for b in m['blocks'].values() for e, _ in b]
        pick = set(rng.sample(eids, rng.randint(1, max(1, len(eids) - 1))))
        out = dict(m)
        out['blocks'] = {t: [(e, flip_element(t, c) if e in pick else list(c)) for e, c in b] for t, b in m['blocks'].items()}
        if 'faces' in m:
            out['faces'] = {e: [list(reversed(f)) if e in pick else list(f) for f in fs] for e, fs in m['faces'].items()}
        out['flipped'] = sorted(pick)
    out['orientation'] = cls
    return out


def gen_calls(rng, m):
    """2-5 calls; half of the sequences are sandwiches [q, q', q] (q' = q with ONE option / the api changed) with random calls inserted"""
    shell = is_shell(m)
    mixed = len(m['blocks']) > 1
    apis = ['area', 'metric', 'normal', 'area'] if shell else ['volume', 'metric', 'volume']

    def one(api=None, **fix):
        api = api or rng.choice(apis)
        c = {'api': api, 'mode': rng.choice(MODES), 'raise': rng.random() < .2, 'abs': rng.random() < .4,
             'elements': rng.choices(['none', 'self', 'block'], [7, 2, 1 if mixed else 0])[0], 'update': rng.random() < .8}
        c.update(fix)
        if c['api'] == 'normal' and c['elements'] == 'self':
            # calculate_element_normals is lru_cached: its `elements` argument has to be hashable, which the whole (dict-like)
            # FEMElementalAttribute is not; a type block (FEMAttribute) is what femio itself passes
            c['elements'] = 'block'
        if c['elements'] == 'block':
            c['elements'] = 'block:' + rng.choice(list(m['blocks']))
        return c
    if rng.random() < .5:
        calls = [one() for _ in range(rng.randint(2, 5))]
    else:
        q = one(rng.choice([a for a in apis if a != 'normal']), elements='none', update=True, **{'raise': False, 'abs': False})
        q2 = dict(q)
        ch = rng.choice(['abs', 'abs', 'mode', 'raise', 'elements', 'update', 'api', 'abs+mode'])
        if 'abs' in ch:
            q2['abs'] = True
        if 'mode' in ch:
            q2['mode'] = rng.choice([x for x in MODES if x != q['mode']])
        if ch == 'raise':
            q2['raise'] = True
        if ch == 'elements':
            q2.update(elements='self', abs=rng.random() < .5)
        if ch == 'update':
            q2.update(update=False, abs=rng.random() < .5)
        if ch == 'api':
            q2.update(api=rng.choice([a for a in apis if a not in ('normal', q['api'])]), abs=rng.random() < .5)
        calls = [q, q2, dict(q)]
        for _ in range(rng.randint(0, 2)):
            calls.insert(rng.randint(0, len(calls)), one())
    seen_metric = False
    for c in calls:
        if c['elements'].startswith('block:'):
            c['update'] = False                       # a partial variable stored under the whole mesh's name: not a use femio supports
        if c['api'] == 'metric':
            # elements=..., update=True with 'metric' already stored: update_data(allow_overwrite=False) raises (DESIGN 5, F5)
            if c['elements'] == 'self' and seen_metric:
                c['update'] = False
            seen_metric = True
        if c['api'] == 'normal':
            c['raise'] = c['abs'] = False
    return calls


def call_kwargs(fd, c):
    api, kw = c['api'], {}
    if api != 'metric':
        kw['mode'] = c['mode']
    if api != 'normal':
        nm = {'volume': 'volume', 'area': 'area', 'metric': 'metric'}[api]
        kw['raise_negative_' + nm] = c['raise']
        kw['return_abs_' + nm] = c['abs']
    el = c['elements']
    if el == 'self':
        kw['elements'] = fd.elements
        if api == 'volume' and fd.elements.element_type == 'polyhedron':      # explicit elements: the caller supplies the faces too
            kw['faces'] = fd.elemental_data['face']['polyhedron'].data
    elif el.startswith('block:'):
        kw['elements'] = fd.elements[el[6:]]
        if api == 'normal':                    # the other three infer the type from `elements.name`
            kw['element_type'] = el[6:]
        if api == 'volume' and el[6:] == 'polyhedron':
            kw['faces'] = fd.elemental_data['face']['polyhedron'].data
    kw['update'] = c['update']
    return kw


def do_call(fd, c):
    """-> ('vals', returned array object, ids) | ('raises', exception type name, message)"""
    f = {'volume': fd.calculate_element_volumes, 'area': fd.calculate_element_areas, 'metric': fd.calculate_element_metrics,
         'normal': fd.calculate_element_normals}[c['api']]
    try:
        r = G.quiet(f, **call_kwargs(fd, c))
    except C.Timeout:
        raise
    except Exception as e:
        return ('raises', type(e).__name__, str(e)[:200])
    el = c['elements']
    ids = [int(i) for i in (fd.elements[el[6:]].ids if el.startswith('block:') else fd.elements.ids)]
    return ('vals', r, ids)


def _snap_inputs(fd):
    out = {'nodes.ids': np.array(fd.nodes.ids).copy(), 'nodes.data': np.array(fd.nodes.data).copy(),
           'elements.ids': np.array(fd.elements.ids).copy()}
    for t, a in fd.elements.items():
        out[f'elements[{t}].ids'] = np.array(a.ids).copy()
        out[f'elements[{t}].data'] = [np.array(r).copy() for r in a.data] if a.data.dtype == object else np.array(a.data).copy()
    if 'face' in fd.elemental_data:
        out['face'] = [list(r) for r in fd.elemental_data['face']['polyhedron'].data]
    return out


def _bits_equal(a, b):
    if isinstance(a, list) or isinstance(b, list):
        return len(a) == len(b) and all(_bits_equal(x, y) for x, y in zip(a, b))
    a, b = np.asarray(a), np.asarray(b)
    return a.shape == b.shape and a.dtype == b.dtype and a.tobytes() == b.tobytes()


def _as_float(r):
    return np.array(r, dtype=float)


def _close(a, b, tol):
    """elementwise |a - b| <= tol (tol scalar or array), nan never close"""
    return a.shape == b.shape and bool(np.all(np.abs(a - b) <= tol))


def _validate_np(c, stored):
    """what `_validate_metric` of the unchanged tree returns for the stored variable `stored` (a snapshot)"""
    if c['raise'] and bool(np.any(stored < 0.)):
        return ('raises', 'ValueError', 'Negative metric found')
    return ('vals', np.abs(stored) if c['abs'] else stored, None)


def seq_model(ctx, m, calls):
    """the exact history model (Model/GeomHistory.lean, the tree as it is: stored variables are reused): per call
    ('vals', {eid: value}) | ('negative',) | ('unsupported',) | ('upderr',) | None (normal calls / model not applicable)"""
    if ctx is None or getattr(ctx, 'driver', None) is None or 'faces' in m:
        return None
    shell = is_shell(m)
    enc = []
    for c in calls:
        if c['api'] == 'normal' or c['elements'].startswith('block:'):
            continue
        enc.append(' '.join(['m' if c['api'] == 'metric' else 'b', c['mode'], str(int(c['raise'])), str(int(c['abs'])),
                             str(int(c['elements'] == 'self')), str(int(c['update']))]))
    if not enc:
        return [None] * len(calls)
    rep = ctx.driver.ask(f'c11.seq 1 0 {int(shell)} {G.enc_mesh(m)} {len(enc)} ' + ' '.join(enc))
    t = C.Toks(rep)
    if t.tok() != 'ok':
        raise RuntimeError('driver: ' + rep[:200])
    outs = []
    for _ in range(t.nat()):
        k = t.tok()
        if k == 'v':
            d = {}
            for _ in range(t.nat()):
                e = t.nat()
                if shell:
                    den = t.rat()
                    d[e] = sum(sqrtF(q) for q in t.lst(t.rat)) / float(den)
                else:
                    d[e] = float(t.rat())
            outs.append(('vals', d))
        else:
            outs.append(({'neg': 'negative', 'unsup': 'unsupported', 'upderr': 'upderr', 'nokernel': 'nokernel'}[k],))
    it = iter(outs)
    return [None if (c['api'] == 'normal' or c['elements'].startswith('block:')) else next(it) for c in calls]


def faces_model_values(ctx, m, mode):
    """exact signed volumes of a solid mesh that has polyhedron cells (explicit faces): polyhedra through c11.polyvol, the
    other cells through c11.vol"""
    pos = dict(m['nodes'])
    out = {}
    for t, b in m['blocks'].items():
        if t == 'polyhedron':
            lines = [f'c11.polyvol {mode} ' + C.enc_list(m['faces'][e], lambda f: enc_pts([pos[n] for n in f])) for e, _ in b]
        else:
            lines = [f'c11.vol {t} {mode} {enc_pts([pos[n] for n in c])}' for _, c in b]
        for (e, _), rep in zip(b, ctx.driver.ask_many(lines)):
            tk = C.Toks(rep)
            if tk.tok() != 'ok' or (t != 'polyhedron' and tk.nat() != 1):
                return None
            out[e] = float(tk.rat())
    return out


def partly_polyhedron(rng, m):
    """the same solid cells, a random non-empty proper subset of them given as polyhedra with explicit faces (a MIXED mesh
    with a polyhedron block: the `mix` branch of calculate_element_volumes fetches the faces itself)"""
    cells = [(t, e, c) for t, b in m['blocks'].items() for e, c in b]
    if len(cells) < 2:
        return to_polyhedron_mesh(m)
    pick = set(rng.sample([e for _, e, _ in cells], rng.randint(1, len(cells) - 1)))
    blocks, faces = {}, {}
    for t, e, c in cells:
        if e in pick:
            blocks.setdefault('polyhedron', []).append((e, list(c)))
            faces[e] = [[c[i] for i in f] for f in G.FACES[t]]
        else:
            blocks.setdefault(t, []).append((e, list(c)))
    out = dict(m)
    out.update(blocks={t: blocks[t] for t in G.ELEMENT_TYPES if t in blocks}, faces=faces, kind='polyhedron+' + m['kind'])
    return out


def check_sequence(m, calls, ctx=None, labels=None):
    """-> list of (signature, what, observed).  `labels`: list that receives one classification label per step"""
    labels = labels if labels is not None else []
    out = []
    dim = 2 if is_shell(m) else 3
    sc = scale_of(m)
    tys = mesh_types(m)
    mixed = len(tys) > 1
    type_of = {e: t for t, b in m['blocks'].items() for e, _ in b}
    cls = m.get('orientation', '?')
    kinds = 'mixed' if mixed else tys[0]
    fd = to_fem(m)
    try:
        type(fd).calculate_element_normals.cache_clear()
    except Exception:
        pass
    before = _snap_inputs(fd)
    returned = []          # (step, api, array object as returned, snapshot at return time)
    live = []
    stored = {'volume': None, 'area': None, 'metric': None}      # SNAPSHOTS of what the storing call returned
    known = []             # per step: the outcome the stored-variable semantics of the unchanged tree gives, or None
    base = 'area' if dim == 2 else 'volume'

    def describe_call(i):
        c = calls[i]
        return f'#{i + 1} {c["api"]}(' + ', '.join(f'{k}={c[k]}' for k in ('mode', 'raise', 'abs', 'elements', 'update')
                                                  if not (k == 'mode' and c['api'] == 'metric')
                                                  and not (k in ('raise', 'abs') and c['api'] == 'normal')) + ')'
    for i, c in enumerate(calls):
        api = c['api']
        k_out = None
        if api in SIGNED_APIS and c['elements'] == 'none' and stored[api] is not None:
            k_out = _validate_np(c, stored[api])
        known.append(k_out)
        r = do_call(fd, c)
        if r[0] == 'vals':
            snap = np.array(r[1]).copy()
            returned.append((i, api, r[1], snap))
            live.append(('vals', snap, r[2]))          # the value AS RETURNED (the array object may be changed later)
        else:
            live.append(r)
        if r[0] == 'vals':
            if api in SIGNED_APIS and k_out is None and c['update'] and c['elements'] in ('none', 'self'):
                stored[api] = _as_float(snap)
                if api == 'metric' and not mixed:
                    stored[base] = _as_float(snap)
        # a later query must not change what an earlier query returned, nor the mesh
        for j, api_j, arr, snap_j in returned:
            if j < i and not _bits_equal(arr, snap_j):
                neg = bool(np.any(_as_float(snap_j) < 0)) and api_j in SIGNED_APIS
                out.append((f'sequence:returned-array-changed:{api_j}' + (':sign' if neg and np.array_equal(np.abs(snap_j), np.abs(arr)) else ''),
                            f'the array returned by call {describe_call(j)} was changed in place by the later call {describe_call(i)} '
                            f'on the same object ({cls} {kinds} mesh)' + (': the signed values of negatively oriented elements lost '
                                                                          'their sign' if neg else ''),
                            {'returned_then': snap_j.ravel()[:6].tolist(), 'now': np.array(arr).ravel()[:6].tolist(), 'changed_by_call': i + 1}))
                returned = [x for x in returned if x[0] != j]
                break
    after = _snap_inputs(fd)
    for key in before:
        if key not in after or not _bits_equal(before[key], after[key]):
            out.append((f'sequence:input-changed:{key.split("[")[0] + ("." + key.split(".")[-1] if "[" in key else "")}',
                        f'{key} of the object changed during the call sequence ({cls} {kinds} mesh)', {'attribute': key}))
            break
    model = seq_model(ctx, m, calls)
    # ---- the same calls, each on a freshly built equal object
    for i, c in enumerate(calls):
        api = c['api']
        f = do_call(to_fem(m), c)
        r = live[i]
        lab = None
        if f[0] == 'raises' and f[1] == 'NotImplementedError':
            labels.append(f'unsupported-by-femio:{api}:' + ('+'.join(tys)))         # calculate_element_metrics has no pyr branch
            continue
        if f[0] == 'raises' and not (f[1] == 'ValueError' and 'Negative metric' in f[2]):
            out.append((f'raises:{api}:{kinds}', f'{describe_call(i)} raises {f[1]} on a freshly built {kinds} mesh',
                        {'error': f[2], 'call': c}))
            labels.append(f'raises:{api}')
            continue
        if api == 'normal':
            emode = lambda e: (c['mode'] if not mixed else 'centroid')   # noqa: E731
            tolv = lambda ids: np.array([[2e-5 if (type_of[e], emode(e)) in F32_NORMAL else 1e-7] for e in ids])   # noqa: E731
        else:
            emode = lambda e: (c['mode'] if (not mixed or api == 'volume') and api != 'metric' else 'centroid')   # noqa: E731
            tolv = lambda ids: np.array([[4 * tol_for(type_of[e], emode(e)) * sc ** dim] for e in ids])   # noqa: E731

        def same(a, b, tol):
            if a[0] != b[0]:
                return False
            if a[0] == 'raises':
                return a[1] == b[1]
            x, y = _as_float(a[1]), _as_float(b[1])
            if x.shape != y.shape:
                return False
            return _close(x, y, tol if tol is not None else 0.0)
        ids = r[2] if r[0] == 'vals' else (f[2] if f[0] == 'vals' else [])
        if r[0] == 'vals' and f[0] == 'vals' and r[2] != f[2]:
            lab = None
        elif same(r, f, 1e-13 * sc ** dim if api != 'normal' else 1e-12):
            lab = 'equals-fresh'
        elif known[i] is not None and same(r, known[i], None):
            lab = f'known:options-ignored:{api}'
        elif r[0] == 'vals' and f[0] == 'vals' and same(r, f, tolv(ids)):
            lab = 'equals-fresh-within-tolerance'
        if lab is None:
            lab = 'VIOLATION'
            signed_flip = False
            if r[0] == 'vals' and f[0] == 'vals' and api in ('volume', 'metric') and dim == 3 and not c['abs'] and r[2] == f[2]:
                x, y = _as_float(r[1]).ravel(), _as_float(f[1]).ravel()
                t_ = tolv(ids).ravel()
                signed_flip = bool(np.any((np.abs(y) > t_) & (np.abs(x + y) <= t_)))
            if signed_flip:
                sig = f'sequence:reflect-sign:{api}:{kinds}'
                what = (f'signed {api} of negatively oriented elements of a {cls} {kinds} mesh came back with the opposite sign from call '
                        f'{describe_call(i)} after the calls ' + '; '.join(describe_call(j) for j in range(i)) + ' on the same object '
                        '(neither the value of a fresh equal object nor the stored variable as an earlier call returned it)')
            else:
                sig = f'sequence:value:{api}:{kinds}'
                what = (f'{describe_call(i)} on a {cls} {kinds} mesh after ' + ('; '.join(describe_call(j) for j in range(i)) or 'no call')
                        + ' returns neither the value of a fresh equal object nor the stored variable as an earlier call returned it')

            def show(o):
                return {'raises': o[1]} if o[0] == 'raises' else {'values': _as_float(o[1]).ravel()[:6].tolist()}
            out.append((sig, what, {'step': i + 1, 'live': show(r), 'fresh': show(f),
                                    'stored_semantics': show(known[i]) if known[i] is not None else None}))
        labels.append(lab)
        # ---- fresh-object value and live value against the exact model
        if ctx is None or getattr(ctx, 'driver', None) is None or c['elements'].startswith('block:'):
            continue
        if 'faces' in m:
            if f[0] == 'vals' and api in ('volume', 'metric'):
                md = c['mode'] if api == 'volume' else 'centroid'
                ex = faces_model_values(ctx, m, md)
                if ex is not None:
                    fv = _as_float(f[1]).ravel()
                    bad = [(e, float(fv[k]), ex[e]) for k, e in enumerate(f[2])
                           if not abs(fv[k] - (abs(ex[e]) if c['abs'] else ex[e])) <= tol_for(type_of[e], md) * sc ** 3]
                    if bad:
                        ctx.disagree('sequence: volumes of a mesh with polyhedron cells differ from the model',
                                     {'mesh': G.to_json(m) | {'faces': m['faces']}, 'call': c}, bad[:3], 'c11.polyvol / c11.vol')
            continue
        if api == 'normal':
            if f[0] == 'vals':
                mode = c['mode']
                ex = parse_mesh_reply(ctx.driver.ask(f'c11.meshnormal 1 {mode} {G.enc_mesh(m)}'), 'normal')
                raw = raw_normal_len(m)
                fv = _as_float(f[1])
                bad = [(e, fv[k].tolist(), ex.get(e)) for k, e in enumerate(f[2])
                       if raw[e] >= 1e-3 and (ex.get(e) is None or max(abs(a - b) for a, b in zip(fv[k], ex[e])) > 1e-6)]
                if bad:
                    ctx.disagree('sequence: normals differ from the model', {'mesh': G.to_json(m), 'call': c}, bad[:3], 'c11.meshnormal')
            continue
        mo = model[i] if model else None
        if mo is None:
            continue
        tolm = lambda ids_: np.array([max(tol_for(type_of[e], md) for md in MODES) * sc ** dim for e in ids_])   # noqa: E731
        if mo[0] == 'vals':
            near0 = any(abs(v) <= 4 * TOL32 * sc ** dim for v in mo[1].values())
        else:
            near0 = False
        agree = None
        if mo[0] == 'vals' and r[0] == 'vals':
            x = _as_float(r[1]).ravel()
            y = np.array([mo[1].get(e, float('nan')) for e in r[2]])
            agree = _close(x, y, tolm(r[2]))
        elif mo[0] == 'negative':
            agree = r[0] == 'raises' and r[1] == 'ValueError'
        elif mo[0] == 'unsupported':
            agree = r[0] == 'raises' and r[1] in ('NotImplementedError', 'ValueError')
        elif mo[0] == 'upderr':
            agree = r[0] == 'raises'
        elif mo[0] == 'nokernel':
            agree = True
        else:
            agree = False
        if not agree and not near0:
            ctx.disagree('sequence: result of a call history differs from the history model (Model/GeomHistory.lean)',
                         {'mesh': G.to_json(m), 'orientation': cls, 'calls': calls, 'step': i + 1},
                         {'raises': r[1]} if r[0] == 'raises' else _as_float(r[1]).ravel()[:6].tolist(),
                         mo[0] if mo[0] != 'vals' else [mo[1].get(e) for e in (r[2] if r[0] == 'vals' else list(mo[1]))][:6])
    return out


def _case_mesh(case):
    m = G.from_json(case['mesh'])
    m['blocks'] = {t: m['blocks'][t] for t in G.ELEMENT_TYPES if t in m['blocks']}
    if 'faces' in case['mesh']:
        m['faces'] = {int(k): v for k, v in case['mesh']['faces'].items()}
    m['orientation'] = case.get('orientation', '?')
    return m


def sequence_stream(ctx):
    rng = ctx.rng
    for name, obj in C.corpus_cases(PROP):          # corpus first (directed histories; failing inputs of repaired findings)
        case = obj.get('input', {})
        if case.get('check') != 'sequence':
            continue
        m = _case_mesh(case)
        labels = []
        ctx.case(('sequence', 'corpus', name))
        ctx.count('sequence:corpus')
        for sig, what, obs in check_sequence(m, case['calls'], ctx, labels):
            ctx.fail(sig, what, case, obs)
        for lab in labels:
            ctx.count('sequence:step:' + lab)
    n_seq = ctx.n(150, 900) if ctx.driver is not None else ctx.n(300, 1800)
    for k in range(n_seq):
        kind = SEQ_KINDS[k % len(SEQ_KINDS)]
        if kind.startswith('shell:'):
            base = gen_shell(rng, kind[6:], jit=True if kind == 'shell:mixed' and k % 2 else None)
        elif kind.startswith('batch:'):
            base, _ = batch_mesh(rng, kind[6:], rng.randint(1, 4), ['affine', 'shaped'])
        elif kind == 'polyhedron':
            base = G.gen_geometric(rng, kind=rng.choice(['tet', 'hex', 'prism', 'pyr', 'mixed']), max_cells=2)
            base = partly_polyhedron(rng, base) if (k // len(SEQ_KINDS)) % 2 else to_polyhedron_mesh(base)
            kind = 'polyhedron+solid' if len(base['blocks']) > 1 else 'polyhedron'
        else:
            base = solid_mesh(ctx, kind)
        cls = ORIENTATIONS[(k // len(SEQ_KINDS) + k) % len(ORIENTATIONS)]
        m = oriented(rng, base, cls)
        calls = gen_calls(rng, m)
        case = {'check': 'sequence', 'mesh': G.to_json(m) | ({'faces': m['faces']} if 'faces' in m else {}), 'orientation': cls,
                'calls': calls}
        ctx.case(('sequence', k, kind, cls), sample={'check': 'sequence', 'mesh': G.describe(m), 'orientation': cls, 'calls': calls}
                 if ctx.dist.get('sequence:sequences', 0) < 1 else None)
        ctx.count('sequence:sequences')
        ctx.count('sequence:mesh:' + kind)
        ctx.count('sequence:orientation:' + cls)
        ctx.count(f'sequence:length:{len(calls)}')
        for c in calls:
            ctx.count(f'sequence:call:{c["api"]}:' + ('abs' if c['abs'] else 'signed') + (':raise' if c['raise'] else '')
                      + ('' if c['elements'] == 'none' else ':elements=' + c['elements'].split(':')[0]) + ('' if c['update'] else ':update=False')
                      if c['api'] != 'normal' else 'sequence:call:normal')
        labels = []
        for sig, what, obs in check_sequence(m, calls, ctx, labels):
            ctx.fail(sig, what, case, obs)
        for lab in labels:
            ctx.count('sequence:step:' + lab)


def replay(ctx, obj):
    case = obj['input']
    if case.get('check') == 'sequence':
        m = _case_mesh(case)
        labels = []
        res = check_sequence(m, case['calls'], ctx, labels)
        return {'case': {k: v for k, v in case.items() if k != 'mesh'}, 'step_classification': labels,
                'failures': [{'signature': s, 'what': w, 'observed': o} for s, w, o in res], 'fails': bool(res)}
    if case.get('check') == 'brick':
        res = check_brick(case['type'], case['n'], [F(x) for x in case['lengths']])
    elif case.get('check') == 'modes-affine':
        res = check_modes_affine(G.from_json(case['mesh']))
    elif case.get('check') == 'modes-planar':
        res = check_modes_planar(G.from_json(case['mesh']), {int(e): F(v) for e, v in case['exact'].items()})
    elif case.get('check') == 'polygon-exact':
        res = check_polygon_exact(polytile_from_json(case['mesh']))
    else:
        m = G.from_json(case['mesh'])
        m['blocks'] = {t: m['blocks'][t] for t in G.ELEMENT_TYPES if t in m['blocks']}
        if 'faces' in case['mesh']:
            m['faces'] = {int(k): v for k, v in case['mesh']['faces'].items()}
        if case.get('abs_scale'):
            m['abs_scale'] = case['abs_scale']
        res = check_metamorphic(m, case['transform'], case['api'], case['mode'])
    return {'case': {k: v for k, v in case.items() if k != 'mesh'}, 'failures': [{'signature': s, 'what': w, 'observed': o} for s, w, o in res],
            'fails': bool(res)}
