"""C13 - mesh graph matrices equal their combinatorial definitions (DESIGN.md section 4, C13).

Tie D: every matrix of the real GraphProcessorMixin is compared entry by entry with the model
(`Femio/Model/GraphOps.lean` through `c13.*` driver commands).  Oracle: brute-force definitions
evaluated in Python on the public attributes (nodes.ids, elements.ids, elements.data)."""
import numpy as np

from . import common as C
from . import meshgen as mg

PROP = 'C13'
LEAN_MODULES = ['Femio.Props.C13']
THEOREMS = ['C13_incidence', 'C13_incidence_order1', 'C13_isSecond_table', 'C13_adjacency_elem', 'C13_adjacency_node',
            'nHopAuxM_refines', 'C13_nhop_reach', 'C13_laplacian_rowsum', 'C13_laplacian_offdiag', 'C13_laplacian_diag',
            'C13_edge_gradient', 'C13_edge_gradient_undirected', 'C13_e2v', 'C13_e2v_selfloop',
            'C13_e2v_isolated_vertex_column']
PARTIAL = ['C13_e2v needs "every vertex has its self loop" (no unreferenced node in nodal mode); the code adds a spurious '
           'column per isolated node (C13_e2v_isolated_vertex_column) - outside the property\'s quantifier, reported as a note',
           'order of the rows of the edge-gradient matrix and of the columns of e2v follows scipy\'s COO order, which the '
           'model does not reproduce: compared as sets / multisets, as the property states them']
RULE = ('seeded meshes: conforming geometric (tet, hex, mixed hex+prism+pyr, tet2 by promotion; voids => several components) '
        'and combinatorial (arbitrary connectivity, types incl. tet2/hex2) with dense/sparse/large/huge/prefix ids in '
        'ascending/descending/shuffled storage order, with and without unreferenced nodes; per mesh: incidence and both '
        'adjacencies (order1_only on/off), n-hop (both modes, hops 1-4, self loops on/off), Laplacian, edge gradient, e2v; '
        'a case = one (mesh, matrix, options); non-trivial = the matrix has at least one off-diagonal entry')
ASSUMPTIONS = ['scipy.sparse Boolean product = OR of ANDs (reproduced by the model, validated by this correspondence)',
               'second-order types other than tet2 / hex2 raise in to_first_order and are not generated']


def dense(m):
    return np.asarray(m.todense()) if hasattr(m, 'todense') else np.asarray(m)


def flat_elements(fd):
    return [int(i) for i in fd.elements.ids], [[int(n) for n in d] for d in fd.elements.data]


def first_order(t, conn):
    return conn[:4] if t == 'tet2' else conn[:8] if t == 'hex2' else conn


def brute(fd, order1):
    """incidence by definition from public attributes"""
    eids, conns = flat_elements(fd)
    types = [str(t) for t in fd.elements.types]
    nids = [int(i) for i in fd.nodes.ids]
    if order1:
        conns = [first_order(t, c) for t, c in zip(types, conns)]
        if any('2' in t for t in types):
            corner = {n for c in conns for n in c}
            nids = [i for i in nids if i in corner]
    inc = np.zeros((len(nids), len(eids)), dtype=bool)
    pos = {i: k for k, i in enumerate(nids)}
    for j, c in enumerate(conns):
        for n in c:
            inc[pos[n], j] = True
    return inc


def reach(adj, hops):
    a = adj.astype(int)
    ret = a.copy()
    pw = a.copy()
    for _ in range(1, hops):
        pw = ((pw @ a) > 0).astype(int)
        ret = ((ret + pw) > 0).astype(int)
    return ret > 0


def parse_pairs(t, shape):
    n = t.nat()
    m = np.zeros(shape, dtype=bool)
    for _ in range(n):
        a, b = t.nat(), t.nat()
        m[a, b] = True
    return m


def parse_triples(t, n):
    k = t.nat()
    m = np.zeros((n, n), dtype=int)
    for _ in range(k):
        a, b, v = t.nat(), t.nat(), int(t.tok())
        m[a, b] = v
    return m


def gen_mesh(ctx, k):
    r = ctx.rng
    u = r.random()
    mc = 2 if ctx.quick else 3
    if u < .45:
        m = mg.gen_geometric(r, max_cells=mc, jitter=False)
        if m['kind'] == 'tet' and r.random() < .5:
            m = mg.promote_tet2(r, m)
    else:
        m = mg.gen_combinatorial(r, max_elems=ctx.n(8, 16))
    return m


def check_mesh(ctx, m, want_fail=True):
    d = mg.describe(m)
    fd = mg.to_femio(m)
    enc = mg.enc_mesh(m)
    second = any('2' in t for t in m['blocks'])
    n_unref = m.get('n_unref', 0)
    ctx.count('kind:' + ('mixed' if len(m['blocks']) > 1 else 'uniform'))
    ctx.count('order:' + m['order'])
    ctx.count('ids:' + str(m.get('id_style')))
    ctx.count('second-order' if second else 'first-order')
    ctx.count('unreferenced-nodes' if n_unref else 'all-nodes-referenced')
    case0 = {'mesh': mg.to_json(m)}

    def ask(line):
        if ctx.driver is None:
            return None
        rep = ctx.driver.ask(line + ' ' + enc)
        t = C.Toks(rep)
        if t.tok() != 'ok':
            raise RuntimeError(f'driver: {rep[:200]} for {line}')
        return t

    def report(what, opts, ok_oracle, impl, model_eq, nontrivial=True):
        case = dict(case0, matrix=what, options=opts)
        ctx.case((enc, what, repr(opts)), sample={'mesh': d, 'matrix': what, 'options': opts}, nontrivial=nontrivial)
        ctx.count('matrix:' + what)
        if not ok_oracle:
            ctx.fail(f'{what}', f'{what}{opts} differs from its combinatorial definition on a {d["kind"]} mesh '
                     f'({d["order"]} storage order, {d["id_style"]} ids)', case, impl)
        if model_eq is False:
            ctx.disagree(what, case, impl, 'model result differs')

    for o1 in ([False, True] if True else [False]):
        I = mg.quiet(fd.calculate_incidence_matrix, order1_only=o1)
        I = dense(I).astype(bool)
        B = brute(fd, o1)
        t = ask(f'c13.inc {int(o1)}')
        meq = None
        if t is not None:
            nN, nE = t.nat(), t.nat()
            Mi = parse_pairs(t, (nN, nE))
            meq = (Mi.shape == I.shape) and bool((Mi == I).all())
        report('incidence', {'order1_only': o1}, I.shape == B.shape and bool((I == B).all()),
               {'shape': I.shape, 'entries': np.argwhere(I).tolist()[:60]}, meq, nontrivial=I.any())
        Ae_b = (B.T.astype(int) @ B.astype(int)) > 0
        An_b = (B.astype(int) @ B.T.astype(int)) > 0
        for mode, Ab in (('elemental', Ae_b), ('nodal', An_b)):
            f = fd.calculate_adjacency_matrix_element if mode == 'elemental' else fd.calculate_adjacency_matrix_node
            A = dense(mg.quiet(f, order1_only=o1)).astype(bool)
            t = ask(f'c13.adj {mode} {int(o1)}')
            meq = None
            if t is not None:
                n = t.nat()
                meq = A.shape == (n, n) and bool((parse_pairs(t, (n, n)) == A).all())
            report('adjacency-' + mode, {'order1_only': o1}, A.shape == Ab.shape and bool((A == Ab).all()),
                   {'entries': np.argwhere(A).tolist()[:60]}, meq, nontrivial=(A & ~np.eye(len(A), dtype=bool)).any())
            # Laplacian
            L = dense(mg.quiet(fd.calculate_laplacian_matrix, mode=mode, order1_only=o1)).astype(int)
            off = ~np.eye(len(L), dtype=bool)
            deg = (Ab & off).sum(axis=1)
            ok = bool((L.sum(axis=1) == 0).all()) and bool((L[off] == Ab[off].astype(int)).all()) \
                and bool((np.diag(L) == -deg).all())
            t = ask(f'c13.lap {mode} {int(o1)}')
            meq = None
            if t is not None:
                n = t.nat()
                meq = L.shape == (n, n) and bool((parse_triples(t, n) == L).all())
            report('laplacian-' + mode, {'order1_only': o1}, ok, {'rows': L.tolist()[:8]}, meq, nontrivial=L.any())
            # edge gradient
            Gm = dense(mg.quiet(fd.calculate_edge_gradient_matrix, mode=mode, order1_only=o1)).astype(int) \
                if (Ab & off).any() else None
            if Gm is not None:
                rows = []
                ok = True
                for row in Gm:
                    p, q = np.flatnonzero(row == 1), np.flatnonzero(row == -1)
                    if len(p) != 1 or len(q) != 1 or np.count_nonzero(row) != 2:
                        ok = False
                        break
                    rows.append((int(p[0]), int(q[0])))
                und = sorted((int(a), int(b)) for a, b in np.argwhere(Ab & off) if a < b)
                ok = ok and sorted(rows) == und
                t = ask(f'c13.grad {mode} {int(o1)}')
                meq = None
                if t is not None:
                    n = t.nat()
                    k = t.nat()
                    me = sorted((t.nat(), t.nat()) for _ in range(k))
                    meq = me == sorted(rows)
                report('edge-gradient-' + mode, {'order1_only': o1}, ok, {'rows': rows[:40]}, meq)
        # n-hop
        for mode in ('elemental', 'nodal'):
            if mode == 'elemental' and o1:
                continue
            Ab = Ae_b if mode == 'elemental' else An_b
            for hops in ((1, 2, 3) if ctx.quick else (1, 2, 3, 4)):
                for sl in (True, False):
                    R = dense(mg.quiet(fd.calculate_n_hop_adj, mode=mode, n_hop=hops, include_self_loop=sl,
                                       order1_only=o1)).astype(int)
                    want = reach(Ab, hops).astype(int) - (0 if sl else np.eye(len(Ab), dtype=int))
                    isolated = bool((~np.diag(Ab)).any())
                    ok = R.shape == want.shape and bool((R == want).all())
                    t = ask(f'c13.nhop {mode} {hops} {int(sl)} {int(o1)}')
                    meq = None
                    if t is not None:
                        n = t.nat()
                        meq = R.shape == (n, n) and bool((parse_triples(t, n) == R).all())
                    report('n-hop-' + mode, {'n_hop': hops, 'include_self_loop': sl, 'order1_only': o1}, ok,
                           {'rows': R.tolist()[:8]}, meq, nontrivial=(reach(Ab, hops) & ~np.eye(len(Ab), dtype=bool)).any())
    # e2v
    for mode, Ab in (('elemental', None), ('nodal', None)):
        B = brute(fd, False)
        Ab = ((B.T.astype(int) @ B.astype(int)) > 0) if mode == 'elemental' else ((B.astype(int) @ B.T.astype(int)) > 0)
        for sl in (False,):   # include_self_loop=True raises AttributeError in femio (csr has no .row): unsupported option
            E = mg.quiet(fd.calculate_e2v_matrix, mode=mode, include_self_loop=sl).tocoo()
            n = len(Ab)
            off = ~np.eye(n, dtype=bool)
            directed = np.argwhere(Ab if sl else (Ab & off))
            srcs = sorted(int(a) for a, _ in directed)
            cols_ok = sorted(E.col.tolist()) == list(range(E.shape[1])) and bool((E.data == 1).all())
            isolated = bool((~np.diag(Ab)).any())
            ok = cols_ok and E.shape == (n, len(directed)) and sorted(E.row.tolist()) == srcs
            t = ask(f'c13.e2v {mode} {int(sl)}')
            meq = None
            if t is not None:
                mn, k = t.nat(), t.nat()
                ms = t.lst(t.nat)
                meq = (mn, k) == E.shape and ms == sorted(E.row.tolist())
            if isolated and not sl:
                # an isolated vertex is outside the property's quantifier: separate labelled stream, never `fail`
                ctx.count('stream:e2v-with-isolated-vertex(outside quantifier)')
                if not ok:
                    ctx.count('note:e2v spurious column for isolated vertex (F13)')
                ok = True
            report('e2v-' + mode, {'include_self_loop': sl}, ok, {'shape': E.shape, 'rows': E.row.tolist()[:40]}, meq)


def run(ctx):
    for name, j in C.corpus_cases(PROP):
        ctx.count('corpus')
        check_mesh(ctx, mg.from_json(j['mesh']) if 'mesh' in j else mg.from_json(j))
    for k in range(ctx.n(150, 1500)):
        check_mesh(ctx, gen_mesh(ctx, k))


def replay(ctx, obj):
    m = mg.from_json(obj['input']['mesh'])
    m.setdefault('id_style', '?')
    before = len(ctx.failures)
    check_mesh(ctx, m)
    return {'failures': ctx.failures[before:][:5], 'disagreements': ctx.disagreements[:5],
            'fails': len(ctx.failures) > before}
