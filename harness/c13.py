"""C13 - mesh graph matrices equal their combinatorial definitions (DESIGN.md section 4, C13).

Tie D: every matrix of the real GraphProcessorMixin is compared entry by entry with the model
(`Femio/Model/GraphOps.lean` through `c13.*` driver commands).  Oracle: brute-force definitions
evaluated in Python on the public attributes (nodes.ids, elements.ids, per-type connectivity).

How a mesh is checked (round-3 lessons C, D, E, A):
* ALL (matrix, option) combinations are evaluated in a shuffled sequence ON ONE LIVE OBJECT, with repeats and with
  varying call spellings (positional / keyword / default omitted / keyword order) - the methods are lru_cached,
  call each other with particular spellings, and the caches have size 1-2, so the order and the spelling decide which
  cached matrix a call sees;
* a sample of the calls is re-evaluated as the FIRST query of a freshly built equal object and compared;
* every returned matrix is kept and compared again with its value at return when the sequence ends (a later query
  must not modify a matrix handed out earlier), the user data of the object (ids, coordinates, connectivity) is
  compared bit-exactly after every call;
* part of the objects reach their final content through public in-place edits of the connectivity BEFORE the first
  query (`elements[t].data[r, c] = n`, data setter, `.loc[[id]].data = row`, `elements.update({t: attr})`): the
  expectation is the object's current public state, cross-checked by fresh objects built from the same content;
* generators: stratified id style x storage-order class (incl. contiguous-with-offset and gapped small id ranges),
  disjoint unions of components with isolated single elements / isolated nodes, element ids interleaving the types,
  blocked by type or equal to node ids."""
import threading
import traceback
import warnings

import numpy as np

from . import common as C
from . import meshgen as mg

PROP = 'C13'
LEAN_MODULES = ['Femio.Props.C13']
THEOREMS = ['C13_incidence', 'C13_incidence_order1', 'C13_isSecond_table', 'C13_adjacency_elem', 'C13_adjacency_node',
            'nHopAuxM_refines', 'C13_nhop_reach', 'C13_nhop_mono', 'C13_nhop_selfloop_diag', 'C13_nhop_step',
            'C13_nhop_step_selfloops', 'C13_nhop_step_noloop_counterexample',
            'C13_memo_history', 'C13_memo_history_fresh', 'C13_memo_wrong_key_counterexample',
            'C13_laplacian_rowsum', 'C13_laplacian_offdiag', 'C13_laplacian_diag',
            'C13_edge_gradient', 'C13_edge_gradient_undirected', 'C13_e2v', 'C13_e2v_selfloop',
            'C13_e2v_isolated_vertex_column']
PARTIAL = ['C13_e2v needs "every vertex has its self loop" (no unreferenced node in nodal mode); the code adds a spurious '
           'column per isolated node (C13_e2v_isolated_vertex_column) - outside the property\'s quantifier, reported as a note',
           'order of the rows of the edge-gradient matrix and of the columns of e2v follows scipy\'s COO order, which the '
           'model does not reproduce: compared as sets / multisets, as the property states them',
           'C13_memo_history is about an abstract memo table (any key -> value store filled only with results of the pure '
           'function): the lru_cache machinery of femio itself is exercised by the live-object sequences, not modelled '
           '(C19 models it)']
RULE = ('seeded meshes: conforming geometric (tet, hex, mixed hex+prism+pyr, tet2 by promotion; voids => several components), '
        'combinatorial (arbitrary connectivity, types incl. tet2/hex2) and disjoint unions of 2-4 such components with isolated '
        'single elements and isolated nodes; node ids stratified over id style (dense, sparse, large, huge, prefix, '
        'contiguous-with-offset, gapped small ranges) x storage order class (asc, desc, shuffled, midshuf, swap2); element ids '
        'random / interleaving the types / blocked by type / equal to node ids; per mesh ALL of incidence, both adjacencies '
        '(direct and through calculate_adjacency_matrix), n-hop (both modes, hops 1-3 quick / 1-4 thorough, self loops on/off), '
        'Laplacian, edge gradient, e2v x order1_only are evaluated in a shuffled sequence with repeats and random call '
        'spellings on ONE live object, each result compared with its brute-force definition and with the model; a sample is '
        're-evaluated as the first query of a fresh equal object; returned matrices are re-compared at the end of the '
        'sequence and the user data after every call; one object in four reaches its content through public in-place '
        'connectivity edits before the first query; a case = one (mesh, history prefix, matrix, options, spelling); '
        'non-trivial = the matrix has at least one off-diagonal entry')
ASSUMPTIONS = ['scipy.sparse Boolean product = OR of ANDs (reproduced by the model, validated by this correspondence)',
               'second-order types other than tet2 / hex2 raise in to_first_order and are not generated',
               'an object whose connectivity was edited through public means (in place through elements[t].data, the data '
               'setter, .loc[[id]].data, elements.update({t: attr})) BEFORE any graph query is "a mesh" of the quantifier; its '
               'content is what elements[t].ids / elements[t].data show at the time of the first query (edits BETWEEN '
               'queries are C19\'s open finding F11 and are not made here)',
               'a matrix handed out by an earlier call must still have the entries it had at return when the sequence ends '
               '(compared by value after densifying: scipy itself may canonicalise the index arrays of an operand in place)',
               'the diagonal entry of the self-loop-free n-hop matrix of a vertex WITHOUT self loop (unreferenced node) and the '
               'e2v columns of such vertices are not stated by the property: masked / labelled stream']

MODES = ('elemental', 'nodal')
# kind -> (method, parameters in positional order with defaults, keyword-only)
SIG = {
    'inc': ('calculate_incidence_matrix', (('order1_only', False),), False),
    'adj:elemental': ('calculate_adjacency_matrix_element', (('order1_only', False),), False),
    'adj:nodal': ('calculate_adjacency_matrix_node', (('order1_only', False),), False),
    'adjg': ('calculate_adjacency_matrix', (('mode', 'elemental'), ('order1_only', False)), True),
    'lap': ('calculate_laplacian_matrix', (('mode', 'nodal'), ('order1_only', False)), False),
    'grad': ('calculate_edge_gradient_matrix', (('mode', 'nodal'), ('order1_only', False)), False),
    'nhop': ('calculate_n_hop_adj', (('mode', 'elemental'), ('n_hop', 1), ('include_self_loop', True),
                                     ('order1_only', False)), False),
    'e2v': ('calculate_e2v_matrix', (('mode', 'elemental'), ('include_self_loop', False)), False),
}
WHAT = {'inc': 'incidence', 'adj': 'adjacency', 'adjg': 'adjacency', 'lap': 'laplacian', 'grad': 'edge-gradient',
        'nhop': 'n-hop', 'e2v': 'e2v'}


def dense(m):
    return np.asarray(m.todense()) if hasattr(m, 'todense') else np.asarray(m)


def first_order(t, conn):
    return conn[:4] if t == 'tet2' else conn[:8] if t == 'hex2' else conn


def reach(adj, hops):
    a = adj.astype(int)
    ret = a.copy()
    pw = a.copy()
    for _ in range(1, hops):
        pw = ((pw @ a) > 0).astype(int)
        ret = ((ret + pw) > 0).astype(int)
    return ret > 0


# ------------------------------------------------------------------------------------------------ queries

def q_what(q):
    return WHAT[q[0]] + ('' if q[0] == 'inc' else '-' + q[1])


def q_opts(q):
    kind, mode, o1, hops, sl = q
    if kind == 'nhop':
        return {'n_hop': hops, 'include_self_loop': sl, 'order1_only': o1}
    if kind == 'e2v':
        return {'include_self_loop': sl}
    if kind == 'adjg':
        return {'order1_only': o1, 'via': 'calculate_adjacency_matrix'}
    return {'order1_only': o1}


def q_sig(q):
    kind, mode = q[0], q[1]
    return SIG[kind + ':' + mode] if kind == 'adj' else SIG[kind]


def q_values(q):
    kind, mode, o1, hops, sl = q
    return {'mode': mode, 'order1_only': o1, 'n_hop': hops, 'include_self_loop': sl}


def spell(r, q):
    """one way of writing the call: number of positional arguments, names of the keyword arguments in order; an
    argument equal to its default may be omitted (lru_cache keys differ between all of these)"""
    _, params, kwonly = q_sig(q)
    vals = q_values(q)
    npos = 0 if kwonly else r.choice([0, 0, 1, len(params), r.randint(0, len(params))])
    npos = min(npos, len(params))
    kw = [n for n, d in params[npos:] if not (vals[n] == d and r.random() < .5)]
    if len(kw) > 1 and r.random() < .3:
        r.shuffle(kw)
    return [npos, kw]


def call(fd, q, sp):
    meth, params, _ = q_sig(q)
    vals = q_values(q)
    npos, kw = sp
    pos = [vals[n] for n, _ in params[:npos]]
    with warnings.catch_warnings():
        warnings.simplefilter('ignore')
        return mg.quiet(getattr(fd, meth), *pos, **{n: vals[n] for n in kw})


def spelled(q, sp):
    meth, params, _ = q_sig(q)
    vals = q_values(q)
    npos, kw = sp
    return meth + '(' + ', '.join([repr(vals[n]) for n, _ in params[:npos]] + [f'{n}={vals[n]!r}' for n in kw]) + ')'


def queries(E, quick):
    """every (matrix, options) the property talks about, for a mesh with expectation E"""
    qs = []
    hops = (1, 2, 3) if quick else (1, 2, 3, 4)
    for o1 in (False, True):
        qs.append(('inc', None, o1, None, None))
        for mode in MODES:
            off = E.offdiag(mode, o1)
            qs.append(('adj', mode, o1, None, None))
            # calculate_adjacency_matrix(mode='elemental') ignores order1_only (documented: "effective only when
            # mode == 'nodal'"): asked with order1_only=True only where that cannot matter (first-order meshes)
            if mode == 'nodal' or not o1 or not E.second:
                qs.append(('adjg', mode, o1, None, None))
            qs.append(('lap', mode, o1, None, None))
            if off.any():        # no edge: np.concatenate([]) raises; the property speaks of the rows per edge
                qs.append(('grad', mode, o1, None, None))
            if mode == 'elemental' and o1 and E.second:
                continue         # n-hop: the elemental adjacency ignores order1_only as well
            for h in hops:
                for sl in (True, False):
                    qs.append(('nhop', mode, o1, h, sl))
    for mode in MODES:
        qs.append(('e2v', mode, None, None, False))   # include_self_loop=True raises AttributeError: unsupported option
    return qs


# ------------------------------------------------------------------------------------------------ expectation

def public_blocks(fd):
    return {t: [(int(e), [int(n) for n in c]) for e, c in zip(a.ids, a.data)] for t, a in fd.elements.items()}


class Expect:
    """brute-force definitions from the public state of an object (read BEFORE any query): node rows by storage
    position (nodes.ids), element columns in the order of elements.ids, connectivity from the per-type blocks"""

    def __init__(self, fd):
        self.nids = [int(i) for i in fd.nodes.ids]
        self.eids = [int(i) for i in fd.elements.ids]
        by_id = {}
        for t, a in fd.elements.items():
            for e, c in zip(a.ids, a.data):
                by_id[int(e)] = (t, [int(n) for n in c])
        self.types = [by_id[e][0] for e in self.eids]
        self.conns = [by_id[e][1] for e in self.eids]
        self.second = any('2' in t for t in self.types)
        self.B = {o1: self._incidence(o1) for o1 in (False, True)}
        self.A = {}
        self._reach, self._nontrivial = {}, {}
        for o1 in (False, True):
            B = self.B[o1].astype(int)
            self.A['elemental', o1] = (B.T @ B) > 0
            self.A['nodal', o1] = (B @ B.T) > 0

    def _incidence(self, order1):
        conns, nids = self.conns, self.nids
        if order1:
            conns = [first_order(t, c) for t, c in zip(self.types, conns)]
            if self.second:
                corner = {n for c in conns for n in c}
                nids = [i for i in nids if i in corner]
        inc = np.zeros((len(nids), len(self.eids)), dtype=bool)
        pos = {i: k for k, i in enumerate(nids)}
        for j, c in enumerate(conns):
            for n in c:
                inc[pos[n], j] = True
        return inc

    def adj(self, q):
        kind, mode, o1 = q[0], q[1], q[2]
        if mode == 'elemental' and kind in ('adjg', 'nhop', 'e2v'):
            o1 = False      # these use calculate_adjacency_matrix_element() (see queries())
        if kind == 'e2v':
            o1 = False
        return self.A[mode, bool(o1)]

    def reach(self, q):
        key = (q[1], self.adj(q) is self.A[q[1], True], q[3])
        if key not in self._reach:
            self._reach[key] = reach(self.adj(q), q[3])
        return self._reach[key]

    def offdiag(self, mode, o1):
        A = self.A[mode, o1]
        return A & ~np.eye(len(A), dtype=bool)


def canon(q, raw):
    """the observable of a result that the property talks about (a new object, never aliasing `raw`)"""
    kind = q[0]
    if kind in ('inc', 'adj', 'adjg'):
        return np.array(dense(raw).astype(bool))
    if kind in ('lap', 'nhop'):
        return np.array(dense(raw).astype(int))
    if kind == 'grad':
        G = dense(raw).astype(int)
        rows = []
        for row in G:
            p, m = np.flatnonzero(row == 1), np.flatnonzero(row == -1)
            if len(p) != 1 or len(m) != 1 or np.count_nonzero(row) != 2:
                return ('malformed-row', G.shape[1], [int(v) for v in row][:40])
            rows.append((int(p[0]), int(m[0])))
        return ('rows', G.shape[1], sorted(rows))
    E = raw.tocoo()
    cols_ok = sorted(E.col.tolist()) == list(range(E.shape[1])) and bool((np.asarray(E.data) == 1).all())
    return ('e2v', tuple(int(v) for v in E.shape), sorted(int(v) for v in E.row), cols_ok)


def same(a, b):
    if isinstance(a, np.ndarray) or isinstance(b, np.ndarray):
        return isinstance(a, np.ndarray) and isinstance(b, np.ndarray) and a.shape == b.shape and bool((a == b).all())
    return a == b


def brief(c):
    if isinstance(c, np.ndarray):
        return {'shape': list(c.shape), 'rows': c.astype(int).tolist()[:10]}
    return [list(x)[:40] if isinstance(x, (list, tuple)) else x for x in c]


def judge(E, q, c):
    """(ok, isolated-vertex stream?)  -  does the canonical result equal the combinatorial definition?"""
    kind, mode, o1, hops, sl = q
    if kind == 'inc':
        return same(c, E.B[bool(o1)]), False
    Ab = E.adj(q)
    n = len(Ab)
    eye = np.eye(n, dtype=bool)
    off = ~eye
    if kind in ('adj', 'adjg'):
        return same(c, Ab), False
    if kind == 'lap':
        if c.shape != (n, n):
            return False, False
        deg = (Ab & off).sum(axis=1)
        return (bool((c.sum(axis=1) == 0).all()) and bool((c[off] == Ab[off].astype(int)).all())
                and bool((np.diag(c) == -deg).all())), False
    if kind == 'grad':
        und = sorted((int(a), int(b)) for a, b in np.argwhere(Ab & off) if a < b)
        return c == ('rows', n, und), False
    if kind == 'nhop':
        if c.shape != (n, n):
            return False, False
        want = E.reach(q).astype(int) - (0 if sl else eye.astype(int))
        mask = np.ones((n, n), dtype=bool)
        if not sl:
            # a vertex without self loop (unreferenced node): its diagonal entry is not stated by the property
            iso = np.flatnonzero(~np.diag(Ab))
            mask[iso, iso] = False
        return bool((c[mask] == want[mask]).all()), False
    # e2v
    directed = np.argwhere(Ab if sl else (Ab & off))
    srcs = sorted(int(a) for a, _ in directed)
    ok = c[0] == 'e2v' and c[3] and c[1] == (n, len(directed)) and c[2] == srcs
    isolated = bool((~np.diag(Ab)).any())
    return ok, (isolated and not sl)


def nontrivial(E, q):
    if q not in E._nontrivial:
        if q[0] == 'inc':
            v = bool(E.B[bool(q[2])].any())
        else:
            Ab = E.reach(q) if q[0] == 'nhop' else E.adj(q)
            v = bool((Ab & ~np.eye(len(Ab), dtype=bool)).any())
        E._nontrivial[q] = v
    return E._nontrivial[q]


# ------------------------------------------------------------------------------------------------ model

def model_line(q):
    kind, mode, o1, hops, sl = q
    if kind == 'inc':
        return f'c13.inc {int(o1)}'
    if kind in ('adj', 'adjg'):
        return f'c13.adj {mode} {int(bool(o1) and not (kind == "adjg" and mode == "elemental"))}'
    if kind == 'lap':
        return f'c13.lap {mode} {int(o1)}'
    if kind == 'grad':
        return f'c13.grad {mode} {int(o1)}'
    if kind == 'nhop':
        return f'c13.nhop {mode} {hops} {int(sl)} {int(o1)}'
    return f'c13.e2v {mode} {int(sl)}'


def model_canon(q, rep):
    t = C.Toks(rep)
    if t.tok() != 'ok':
        raise RuntimeError(f'driver: {rep[:200]} for {model_line(q)}')
    kind = q[0]
    if kind == 'inc':
        nN, nE = t.nat(), t.nat()
        m = np.zeros((nN, nE), dtype=bool)
        for _ in range(t.nat()):
            a, b = t.nat(), t.nat()
            m[a, b] = True
        return m
    if kind in ('adj', 'adjg'):
        n = t.nat()
        m = np.zeros((n, n), dtype=bool)
        for _ in range(t.nat()):
            a, b = t.nat(), t.nat()
            m[a, b] = True
        return m
    if kind in ('lap', 'nhop'):
        n = t.nat()
        m = np.zeros((n, n), dtype=int)
        for _ in range(t.nat()):
            a, b, v = t.nat(), t.nat(), int(t.tok())
            m[a, b] = v
        return m
    if kind == 'grad':
        n = t.nat()
        k = t.nat()
        return ('rows', n, sorted((t.nat(), t.nat()) for _ in range(k)))
    mn, k = t.nat(), t.nat()
    return ('e2v', (mn, k), t.lst(t.nat), True)


class ModelJob:
    """all model requests of one mesh, answered by the driver while the real code runs"""

    def __init__(self, ctx, enc, qs):
        self.lines = sorted({model_line(q) for q in qs})
        self.replies, self.err = None, None
        self.enc = enc
        self.t = None
        if ctx.driver is not None:
            self.t = threading.Thread(target=self._run, args=(ctx.driver,))
            self.t.start()

    def _run(self, driver):
        try:
            self.replies = dict(zip(self.lines, driver.ask_many([ln + ' ' + self.enc for ln in self.lines])))
        except Exception as e:      # re-raised in the main thread
            self.err = e

    def wait(self):
        if self.t is None:
            return None
        self.t.join()
        if self.err is not None:
            raise self.err
        return self.replies


# ------------------------------------------------------------------------------------------------ generators

ID_STYLES = ['dense', 'sparse', 'large', 'huge', 'prefix', 'offset', 'gapped']
ORDERS = ['asc', 'desc', 'shuf', 'midshuf', 'swap2', 'shuf']
EID_STYLES = ['random', 'random', 'interleaved', 'typeblocked', 'typeblocked-rev', 'as-node-ids', 'gapped', 'offset']


def small_ids(r, n, style):
    """'sparse but small' id sets: `offset` = one contiguous range not starting at 1; `gapped` = two or three dense ranges
    separated by gaps of about n (sums / differences / offsets of such ids collide where random sparse ids do not)"""
    if style == 'offset':
        k = r.choice([2, 3, n, n + 1, 2 * n, 100, 1000, 10 ** 6])
        return list(range(k, k + n))
    parts = r.randint(2, 3) if n >= 3 else 2 if n == 2 else 1
    cuts = sorted(r.sample(range(1, n), parts - 1)) if n > 1 else []
    sizes = [b - a for a, b in zip([0] + cuts, cuts + [n])]
    ids, start = [], r.choice([1, 1, 2, n])
    for s in sizes:
        ids += list(range(start, start + s))
        start += s + r.choice([n - 1, n, n + 1, s, 2 * n])
    return ids


def relabel_nodes(r, m, style):
    """rank-preserving relabelling of the node ids (the storage-order class is kept)"""
    old = sorted(i for i, _ in m['nodes'])
    new = sorted(small_ids(r, len(old), style))
    f = dict(zip(old, new))
    m = dict(m)
    m['nodes'] = [(f[i], p) for i, p in m['nodes']]
    m['blocks'] = {t: [(e, [f[n] for n in c]) for e, c in b] for t, b in m['blocks'].items()}
    m['id_style'] = style
    return m


def relabel_elems(r, m, style):
    """element ids: interleaving the types (round robin), blocked by type in / against ELEMENT_TYPES order, drawn from
    the node ids, small gapped / offset ranges; the storage order inside a block stays as generated (shuffled)"""
    if style == 'random':
        return m
    blocks = m['blocks']
    n = sum(len(b) for b in blocks.values())
    if style == 'as-node-ids':
        pool = sorted(i for i, _ in m['nodes'])
        ids = sorted(r.sample(pool, n)) if len(pool) >= n else list(range(1, n + 1))
    elif style in ('gapped', 'offset'):
        ids = sorted(small_ids(r, n, style))
    else:
        base = r.choice([1, 1, 7, 1000])
        ids = list(range(base, base + n))
    ts = list(blocks)
    if style == 'typeblocked-rev':
        slots = [t for t in reversed(ts) for _ in blocks[t]]
    elif style == 'typeblocked':
        slots = [t for t in ts for _ in blocks[t]]
    elif style == 'interleaved':
        left = {t: len(blocks[t]) for t in ts}
        slots = []
        while len(slots) < n:
            for t in ts:
                if left[t]:
                    slots.append(t)
                    left[t] -= 1
    else:
        slots = [t for t in ts for _ in blocks[t]]
        r.shuffle(slots)
    per = {t: [i for i, s in zip(ids, slots) if s == t] for t in ts}
    out = {}
    for t in ts:
        r.shuffle(per[t])
        out[t] = [(e, c) for e, (_, c) in zip(per[t], blocks[t])]
    m = dict(m)
    m['blocks'] = out
    m['eid_style'] = style
    return m


def gen_components(r, quick, id_style, order):
    """disjoint union of 2-4 components: small combinatorial / geometric meshes, ISOLATED SINGLE ELEMENTS (sharing no
    node with anything) and, sometimes, isolated nodes; the components interleave in node and element storage"""
    parts = []
    for _ in range(r.randint(2, 4)):
        u = r.random()
        if u < .45:
            t = r.choice(['line', 'tri', 'quad', 'tet', 'tet2', 'pyr', 'prism', 'hex', 'hex2'])
            parts.append(mg.gen_combinatorial(r, types=[t], n_nodes=mg.ARITY[t], max_elems=1, id_style='dense',
                                              order='asc', unref=False))
        elif u < .8:
            parts.append(mg.gen_combinatorial(r, max_elems=3 if quick else 5, id_style='dense', order='asc', unref=False))
        else:
            p = mg.gen_geometric(r, max_cells=1 if quick else 2, jitter=False, voids=False, unref=False, id_style='dense',
                                 order='asc')
            parts.append(mg.promote_tet2(r, p) if p['kind'] == 'tet' and r.random() < .5 else p)
    nodes, elems = [], []
    for k, p in enumerate(parts):
        f = {i: (k, i) for i, _ in p['nodes']}
        nodes += [(f[i], xyz) for i, xyz in p['nodes']]
        elems += [(t, (k, e), [f[n] for n in c]) for t, b in p['blocks'].items() for e, c in b]
    n_unref = sum(p.get('n_unref', 0) for p in parts)
    if r.random() < .3:
        for j in range(r.randint(1, 2)):
            nodes.append((('iso', j), (mg.F(90 + j), mg.F(90), mg.F(90))))
            n_unref += 1
    keys = [k for k, _ in nodes]
    if id_style in ('offset', 'gapped'):
        id_list = small_ids(r, len(keys), id_style)
    else:
        id_list, _ = mg.random_ids(r, len(keys), id_style)
    r.shuffle(id_list)
    idmap = dict(zip(keys, id_list))
    keys, order = mg.order_ids(r, keys, idmap, order)
    xyz = dict(nodes)
    eids, _ = mg.random_ids(r, len(elems), r.choice(['dense', 'sparse', 'large']))
    r.shuffle(eids)
    r.shuffle(elems)
    blocks = {}
    for (t, _, c), e in zip(elems, eids):
        blocks.setdefault(t, []).append((e, [idmap[n] for n in c]))
    blocks = {t: blocks[t] for t in mg.ELEMENT_TYPES if t in blocks}
    return {'kind': 'components:' + '+'.join(sorted(blocks)), 'order': order, 'id_style': id_style,
            'nodes': [(idmap[k], xyz[k]) for k in keys], 'blocks': blocks, 'n_unref': n_unref, 'n_parts': len(parts)}


def gen_mesh(ctx, k):
    """mesh k of the run: node id style and storage-order class are STRATIFIED over k (every combination occurs in
    every 42 consecutive meshes), everything else is random"""
    r = ctx.rng
    id_style = ID_STYLES[k % len(ID_STYLES)]
    order = ORDERS[k % len(ORDERS)]
    base_style = id_style if id_style not in ('offset', 'gapped') else 'dense'
    u = r.random()
    mc = 2 if ctx.quick else 3
    if u < .35:
        m = mg.gen_geometric(r, max_cells=mc, jitter=False, id_style=base_style, order=order)
        if m['kind'] == 'tet' and r.random() < .5:
            m = mg.promote_tet2(r, m)
    elif u < .75:
        m = mg.gen_combinatorial(r, max_elems=ctx.n(8, 16), id_style=base_style, order=order)
    else:
        return relabel_elems(r, gen_components(r, ctx.quick, id_style, order), r.choice(EID_STYLES))
    if id_style in ('offset', 'gapped'):
        m = relabel_nodes(r, m, id_style)
    return relabel_elems(r, m, r.choice(EID_STYLES))


# ------------------------------------------------------------------------------------------------ public edits (lesson A)

EDIT_MEANS = ['inplace', 'setter', 'loc', 'update-block', 'parent-setter']


def gen_edit(r, m):
    """a plan [means, [[type, row, col, other node id], ...]]: the object is BUILT with `other` at these connectivity
    positions and brought to the content of `m` by public edits before the first query"""
    nids = [i for i, _ in m['nodes']]
    cells = []
    for t, b in m['blocks'].items():
        for ri, (_, c) in enumerate(b):
            if r.random() < .35:
                ci = r.randrange(len(c))
                cand = [n for n in nids if n not in c]
                if cand:
                    cells.append([t, ri, ci, r.choice(cand)])
    if not cells:
        return None
    means = r.choice(EDIT_MEANS if len(m['blocks']) == 1 else EDIT_MEANS[:-1])
    return [means, cells]


def build(m, edit):
    """the femio object of mesh m; with an edit plan: built from the perturbed connectivity, then edited to m"""
    if not edit:
        return mg.to_femio(m)
    from femio import FEMAttribute
    means, cells = edit
    m0 = dict(m, blocks={t: [(e, list(c)) for e, c in b] for t, b in m['blocks'].items()})
    for t, ri, ci, other in cells:
        m0['blocks'][t][ri][1][ci] = other
    fd = mg.to_femio(m0)
    for t, b in m['blocks'].items():
        mine = [x for x in cells if x[0] == t]
        if not mine:
            continue
        arr = np.array([c for _, c in b])
        a = fd.elements[t]
        if means == 'inplace':
            for _, ri, ci, _o in mine:
                a.data[ri, ci] = arr[ri, ci]
        elif means == 'setter':
            a.data = arr
        elif means == 'loc':
            for ri in sorted({x[1] for x in mine}):
                sub = a.loc[[b[ri][0]]]
                sub.data = arr[[ri]]
        elif means == 'update-block':
            mg.quiet(fd.elements.update, {t: FEMAttribute(t, ids=np.array([e for e, _ in b]), data=arr, silent=True)})
        elif means == 'parent-setter':
            fd.elements.data = arr
        else:
            raise ValueError(means)
    return fd


# ------------------------------------------------------------------------------------------------ one mesh

def userdata(fd):
    """bit-exact snapshot of the user data of an object"""
    out = {}

    def put(name, a):
        a = np.asarray(a)
        if a.dtype == object:
            out[name] = ('object', repr([np.asarray(x).tolist() for x in a]))
        else:
            out[name] = (a.dtype.str, a.shape, a.tobytes())
    put('nodes.ids', fd.nodes.ids)
    put('nodes.data', fd.nodes.data)
    put('elements.ids', fd.elements.ids)
    put('elements.data', fd.elements.data)
    put('elements.types', np.asarray(fd.elements.types).astype(str))
    for t, a in fd.elements.items():
        put(f'elements[{t}].ids', a.ids)
        put(f'elements[{t}].data', a.data)
    return out


def inside_femio(e):
    return any(str(C.REPO) in f.filename for f in traceback.extract_tb(e.__traceback__))


class Live:
    """one live object and the history of graph queries made on it"""

    def __init__(self, ctx, m, edit, E=None, label='live'):
        self.ctx, self.m, self.edit, self.label = ctx, m, edit, label
        self.fd = build(m, edit)
        self.applied = public_blocks(self.fd) == {t: [(e, list(c)) for e, c in b] for t, b in m['blocks'].items()}
        self.E = E if E is not None else Expect(self.fd)
        self.user0 = userdata(self.fd)
        self.user_reported = False
        self.held = []      # (index in history, q, raw result, canonical value at return)
        self.hist = []      # [q, spelling]

    def step(self, q, sp):
        """evaluate one query; returns ('ok' | 'raises' | 'malformed', canonical value or message, raw)"""
        self.hist.append([list(q), sp])
        try:
            raw = call(self.fd, q, sp)
        except Exception as e:
            if not inside_femio(e):
                raise
            f = [f for f in traceback.extract_tb(e.__traceback__) if str(C.REPO) in f.filename][-1]
            return 'raises', f'{type(e).__name__}: {e} in {f.filename.replace(str(C.REPO) + "/", "")}:{f.lineno} ({f.name})', None
        try:
            c = canon(q, raw)
        except Exception as e:
            return 'malformed', f'{type(e).__name__}: {e}', raw
        self.held.append((len(self.hist) - 1, q, raw, c))
        return 'ok', c, raw

    def user_changed(self):
        now = userdata(self.fd)
        return sorted(k for k in set(now) | set(self.user0) if now.get(k) != self.user0.get(k))

    def held_changed(self):
        """earlier results that no longer have the value they had when they were returned"""
        out = []
        for i, q, raw, c in self.held:
            try:
                now = canon(q, raw)
            except Exception as e:
                now = ('uninterpretable', repr(e))
            if not same(now, c):
                out.append((i, q, c, now))
        return out


def check_mesh(ctx, m, plan=None):
    """plan (replay): {'edit': ..., 'seq': [[q, spelling], ...], 'fresh': [indices]}; None = draw one"""
    r = ctx.rng
    d = mg.describe(m)
    d['eid_style'] = m.get('eid_style', 'random')
    enc = mg.enc_mesh(m)
    replaying = plan is not None
    edit = plan.get('edit') if replaying else (gen_edit(r, m) if r.random() < .25 else None)
    live = Live(ctx, m, edit)
    E = live.E
    ctx.count('kind:' + ('mixed' if len(m['blocks']) > 1 else 'uniform'))
    ctx.count('gen:' + str(m['kind']).split(':')[0])
    ctx.count('order:' + str(m['order']))
    ctx.count('ids:' + str(m.get('id_style')))
    ctx.count('eids:' + str(m.get('eid_style', 'random')))
    ctx.count('second-order' if E.second else 'first-order')
    ctx.count('unreferenced-nodes' if (~np.diag(E.A['nodal', False])).any() else 'all-nodes-referenced')
    single = int(((E.A['elemental', False].sum(axis=1)) == 1).sum())
    ctx.count('isolated-single-elements:' + ('0' if not single else '1' if single == 1 else '2+'))
    ctx.count('elements:' + ('1' if len(E.eids) == 1 else '2-5' if len(E.eids) <= 5 else '6+'))
    if edit:
        ctx.count('stream:public-edit-before-first-query:' + edit[0])
        if not live.applied:
            # the editing means itself did not produce the intended content (C08's subject): not judged here
            ctx.count('stream:public-edit-did-not-apply(not judged)')
            live = Live(ctx, m, None)
            E, edit = live.E, None
    qs = queries(E, ctx.quick)
    if replaying:
        seq = [(tuple(q), sp) for q, sp in plan['seq']]
        fresh_at = list(plan.get('fresh', []))
    else:
        seq = [(q, spell(r, q)) for q in r.sample(qs, len(qs))]
        for _ in range(ctx.n(8, 12)):
            i = r.randrange(len(seq))
            j = r.choice([i + 1, r.randint(i + 1, len(seq))])
            seq.insert(j, (seq[i][0], seq[i][1] if r.random() < .5 else spell(r, seq[i][0])))
        fresh_at = sorted(r.sample(range(len(seq)), min(len(seq), ctx.n(6, 8))))
    job = ModelJob(ctx, enc, [q for q, _ in seq])
    try:
        _check_history(ctx, m, d, enc, edit, live, seq, fresh_at, job)
    finally:
        if job.t is not None:
            job.t.join()      # never leave a reader thread on the driver's pipe behind


def _check_history(ctx, m, d, enc, edit, live, seq, fresh_at, job):
    E = live.E
    case0 = {'mesh': mg.to_json(m), 'edit': edit}
    results = []

    def case_of(upto, extra=None, shrink=None, sig=None):
        hist = seq[:upto + 1]
        if shrink and not getattr(ctx, 'c13_replaying', False) and all(f['signature'] != sig for f in ctx.failures):
            hist = shrink_history(ctx, m, edit, hist, shrink)
        return mk_case(hist, edit, extra)

    def mk_case(hist, edit_, extra=None):
        return dict(case0, edit=edit_, seq=[[list(q), sp] for q, sp in hist],
                    calls=[spelled(q, sp) for q, sp in hist], **(extra or {}))

    def first_query(q, sp, edited):
        """the same call as the FIRST query of an independently built object with the same content (edited: of an
        object that reached the content through the same public edits) -> (status, canonical value, judged right)"""
        f = Live(ctx, m, edit if edited else None, E=None if (edit and not edited) else E, label='fresh')
        st, c, _ = f.step(q, sp)
        return st, c, st == 'ok' and any(judge(f.E, q, c))     # (an isolated vertex puts e2v outside the quantifier)

    def classify(q, sp, i, what):
        """slow path, only after a failure of call #i: is it the input alone, the public edit, or the preceding calls?"""
        if not first_query(q, sp, False)[2]:
            return what, mk_case([(q, sp)], None), \
                '; the same call fails as the first query of a fresh object built from the same content'
        if edit and not first_query(q, sp, True)[2]:
            return prefix + what, mk_case([(q, sp)], edit), \
                ('; it is correct as the first query of a fresh object built from the same content and wrong as the first '
                 'query of an object that reached this content through the edits')
        return prefix + 'history:' + what, case_of(i, shrink='value', sig=prefix + 'history:' + what), \
            '; the same call as the first query of an equal object is correct: the preceding calls on the object matter'

    prefix = 'after-public-edit:' if edit else ''
    where = (f' after public connectivity edits ({edit[0]}) before the first query' if edit else '')
    for i, (q, sp) in enumerate(seq):
        what = q_what(q)
        st, c, raw = live.step(q, sp)
        ctx.case((enc, repr(edit), i, q, repr(sp)),
                 sample={'mesh': d, 'matrix': what, 'options': q_opts(q), 'call': spelled(q, sp), 'position_in_history': i},
                 nontrivial=nontrivial(E, q))
        ctx.count('matrix:' + what)
        results.append((st, c))
        desc = (f'{spelled(q, sp)} as call #{i} of a history on one object{where} ({d["kind"]} mesh, {d["order"]} storage '
                f'order, {d["id_style"]} ids)')
        if st != 'ok':
            sig, cs, why = classify(q, sp, i, f'{"raises" if st == "raises" else "malformed-result"}:{what}')
            ctx.fail(sig, f'{desc}: {c}{why}', cs, c)
            continue
        ok, outside = judge(E, q, c)
        if outside:
            # an isolated vertex is outside the property's quantifier for e2v: separate labelled stream, never `fail`
            ctx.count('stream:e2v-with-isolated-vertex(outside quantifier)')
            if not ok:
                ctx.count('note:e2v spurious column for isolated vertex (F13)')
            ok = True
        if not ok:
            sig, cs, why = classify(q, sp, i, what)
            ctx.fail(sig, f'{what}{q_opts(q)} differs from its combinatorial definition: {desc}{why}', cs, brief(c))
        elif i in fresh_at:
            ctx.count('fresh-object-cross-check')
            fst, fc, fok = first_query(q, sp, False)
            if not fok:
                ctx.fail(what if fst == 'ok' else f'{"raises" if fst == "raises" else "malformed-result"}:{what}',
                         f'{what}{q_opts(q)} differs from its combinatorial definition: {spelled(q, sp)} as the first query of '
                         f'a fresh object ({d["kind"]} mesh, {d["order"]} storage order, {d["id_style"]} ids)',
                         mk_case([(q, sp)], None), fc if fst != 'ok' else brief(fc))
            elif not same(fc, c):
                ctx.count('note:live and fresh result differ in a detail the property does not state')
        # user data after every call
        if not live.user_reported:
            ch = live.user_changed()
            if ch:
                live.user_reported = True
                ctx.fail(f'{prefix}user-data-changed:{what}', f'{desc} modified the user data of the object in place: {ch}',
                         case_of(i, {'check': 'user-data'}, shrink='user', sig=f'{prefix}user-data-changed:{what}'), ch)
    # every matrix handed out earlier must still be what it was
    for (i, q, c0, now) in live.held_changed()[:3]:
        culprit = locate_culprit(ctx, m, edit, seq, i)
        ctx.fail(f'{prefix}returned-matrix-modified:{q_what(q)}',
                 f'the {q_what(q)}{q_opts(q)} matrix returned by call #{i} ({spelled(q, seq[i][1])}) of a history on one object'
                 f'{where} was modified in place by a later call'
                 + (f' (call #{culprit}: {spelled(*seq[culprit])})' if culprit is not None else '')
                 + f' ({d["kind"]} mesh)', case_of(culprit if culprit is not None else len(seq) - 1, {'check': 'held'},
                                                  shrink='held', sig=f'{prefix}returned-matrix-modified:{q_what(q)}'),
                 {'at_return': brief(c0), 'now': brief(now)})
    # correspondence
    replies = job.wait()
    if replies is not None:
        for i, (q, sp) in enumerate(seq):
            st, c = results[i]
            if st != 'ok':
                continue
            mc = model_canon(q, replies[model_line(q)])
            eq = (c[1:3] == mc[1:3]) if q[0] == 'e2v' else same(c, mc)
            if not eq:
                ctx.disagree(q_what(q), case_of(i), brief(c), brief(mc))


def ddmin(prefix, test, budget=70):
    """delta-debugging light: drop chunks of the history prefix while `test(prefix)` still fails"""
    cur = list(prefix)
    size = max(1, len(cur) // 2)
    while cur and budget > 0:
        i, progressed = 0, False
        while i < len(cur) and budget > 0:
            cand = cur[:i] + cur[i + size:]
            budget -= 1
            if test(cand):
                cur, progressed = cand, True
            else:
                i += size
        if size == 1 and not progressed:
            break
        size = max(1, size // 2)
    return cur


def shrink_history(ctx, m, edit, seq, kind, held_index=None):
    """slow path, only for the first failure of a signature: the shortest history (found by ddmin) ending in the same
    call that still shows the same kind of failure ('value' of the last call / 'user' data changed / a 'held' matrix
    modified) on a new object"""
    E0 = []

    def test(prefix):
        try:
            lv = Live(ctx, m, edit, E=E0[0] if E0 else None, label='shrink')
            if not E0:
                E0.append(lv.E)
            hist = list(prefix) + [seq[-1]]
            for q, sp in hist:
                st, c, _ = lv.step(q, sp)
            if kind == 'value':
                return st != 'ok' or not any(judge(lv.E, hist[-1][0], c))
            if kind == 'user':
                return bool(lv.user_changed())
            return bool(lv.held_changed())
        except Exception:
            return False
    try:
        if not test(seq[:-1]):
            return seq
        return ddmin(seq[:-1], test) + [seq[-1]]
    except Exception:
        return seq


def locate_culprit(ctx, m, edit, seq, held_index):
    """slow path, only after a failure: re-run the history on a new object and find the first later call after
    which the result of call #held_index no longer has the value it had at return"""
    try:
        lv = Live(ctx, m, edit, label='locate')
        for i, (q, sp) in enumerate(seq):
            lv.step(q, sp)
            if i > held_index and any(h[0] == held_index for h in lv.held_changed()):
                return i
    except Exception:
        pass
    return None


def run(ctx):
    for name, j in C.corpus_cases(PROP):
        ctx.count('corpus')
        check_mesh(ctx, mg.from_json(j['mesh']) if 'mesh' in j else mg.from_json(j))
    for k in range(ctx.n(130, 1300)):
        check_mesh(ctx, gen_mesh(ctx, k))


def replay(ctx, obj):
    inp = obj['input']
    m = mg.from_json(inp['mesh'])
    m.setdefault('id_style', '?')
    before = len(ctx.failures)
    ctx.c13_replaying = True
    if 'seq' in inp:
        check_mesh(ctx, m, plan={'edit': inp.get('edit'), 'seq': inp['seq'], 'fresh': []})
    else:       # replay files written before the live-object sequences existed: mesh only
        check_mesh(ctx, m)
    return {'failures': ctx.failures[before:][:5], 'disagreements': ctx.disagreements[:5],
            'fails': len(ctx.failures) > before}
