"""C13 - mesh graph matrices equal their combinatorial definitions (DESIGN.md section 4, C13).

Tie D: every matrix of the real GraphProcessorMixin is compared entry by entry with the model
(`Femio/Model/GraphOps.lean` through `c13.*` driver commands).  Oracle: brute-force definitions
evaluated in Python on the public attributes (nodes.ids, elements.ids, per-type connectivity).

How a mesh is checked (round-3 lessons C, D, E, A):
* ALL (matrix, option) combinations are evaluated in a shuffled sequence ON ONE LIVE OBJECT, with repeats and with
  varying call spellings (positional / keyword / default omitted / keyword order) - the methods are lru_cached,
  call each other with particular spellings, and the caches have size 1-2, so the order and the spelling decide which
  cached matrix a call sees;
* a sample of the calls is re-evaluated as the FIRST query of a freshly built equal object and compared;
* every returned matrix is kept and compared again with its value at return when the sequence ends (a later query
  must not modify a matrix handed out earlier), the user data of the object (ids, coordinates, connectivity) is
  compared bit-exactly after every call;
* part of the objects reach their final content through public in-place edits of the connectivity BEFORE the first
  query (`elements[t].data[r, c] = n`, data setter, `.loc[[id]].data = row`, `elements.update({t: attr})`): the
  expectation is the object's current public state, cross-checked by fresh objects built from the same content;
* generators: stratified id style x storage-order class (incl. contiguous-with-offset and gapped small id ranges),
  disjoint unions of components with isolated single elements / isolated nodes, element ids interleaving the types,
  blocked by type or equal to node ids.

Round 5 (classes K, M, N, O, Q, S, T of ROUND5.md and F of ROUND4.md):
* HOP COUNTS follow the graph: its diameter D is computed first; 1, 2, 3 always, on D >= 4 also 4, values in 5..D and one
  value beyond D; on short graphs sometimes one saturated larger value (hop_plan); the hop count is sometimes handed over
  as a numpy integer; the expectation is reachability by its recurrence (not by sums of powers);
* LARGE-DIAMETER graphs are a deliberate style (gen_long: chains / rings of elements sharing 1 or 2 corner nodes; uniform,
  mixed types, tet + tet2 / hex + hex2 in one mesh; rings of line elements give SQUARE incidence matrices), every 11th mesh;
* negative and zero ids next to positive ones (signed_ids), elements listing a node twice and twin elements with the same
  members (many_to_one), integer dtype / Fortran order / read-only flag of the id and connectivity arrays (gen_layout);
* every 13th mesh is queried THROUGH A DERIVED OBJECT (to_first_order, cut_with_element_ids in a non-ascending order,
  cut_with_element_type, cut_with_node_ids, also after the parent answered graph queries); expectation = public state of
  the derived object, cross-checked by an object built directly from that state; the parents' user data is watched too;
* calls outside the quantifier that raise (unknown mode, e2v with include_self_loop=True) are interleaved and not judged:
  what follows on the same object is judged as ever."""
import threading
import traceback
import warnings

import numpy as np

from . import common as C
from . import meshgen as mg

PROP = 'C13'
LEAN_MODULES = ['Femio.Props.C13']
THEOREMS = ['C13_incidence', 'C13_incidence_order1', 'C13_isSecond_table', 'C13_adjacency_elem', 'C13_adjacency_node',
            'nHopAuxM_refines', 'C13_nhop_reach', 'C13_nhop_mono', 'C13_nhop_selfloop_diag', 'C13_nhop_step',
            'C13_nhop_step_selfloops', 'C13_nhop_step_noloop_counterexample',
            'C13_nhop_add', 'C13_nhop_double', 'C13_nhop_binary_power_counterexample',
            'C13_memo_history', 'C13_memo_history_fresh', 'C13_memo_wrong_key_counterexample',
            'C13_laplacian_rowsum', 'C13_laplacian_offdiag', 'C13_laplacian_diag',
            'C13_edge_gradient', 'C13_edge_gradient_undirected', 'C13_e2v', 'C13_e2v_selfloop',
            'C13_e2v_isolated_vertex_column']
PARTIAL = ['C13_e2v needs "every vertex has its self loop" (no unreferenced node in nodal mode); the code adds a spurious '
           'column per isolated node (C13_e2v_isolated_vertex_column) - outside the property\'s quantifier, reported as a note',
           'order of the rows of the edge-gradient matrix and of the columns of e2v follows scipy\'s COO order, which the '
           'model does not reproduce: compared as sets / multisets, as the property states them',
           'C13_memo_history is about an abstract memo table (any key -> value store filled only with results of the pure '
           'function): the lru_cache machinery of femio itself is exercised by the live-object sequences, not modelled '
           '(C19 models it)',
           'C13_nhop_add / C13_nhop_double justify formulations of the n-hop matrix by products of powers only for adjacencies with '
           'all self loops; the binary-powering variant nHopBin is a model of a POSSIBLE reformulation (decided on the 5-path), '
           'not of the current code, and has no general correctness theorem']
RULE = ('seeded meshes: conforming geometric (tet, hex, mixed hex+prism+pyr, tet2 by promotion; voids => several components), '
        'combinatorial (arbitrary connectivity, types incl. tet2/hex2) and disjoint unions of 2-4 such components with isolated '
        'single elements and isolated nodes; node ids stratified over id style (dense, sparse, large, huge, prefix, '
        'contiguous-with-offset, gapped small ranges) x storage order class (asc, desc, shuffled, midshuf, swap2); element ids '
        'random / interleaving the types / blocked by type / equal to node ids; per mesh ALL of incidence, both adjacencies '
        '(direct and through calculate_adjacency_matrix), n-hop (both modes, self loops on/off; hop counts 1-3 always and, from the '
        'graph diameter D computed per mesh, 4, values in 5..D and one beyond D when D >= 4, else sometimes one of 4/5/7/8/16/33; '
        'sometimes as a numpy integer), '
        'Laplacian, edge gradient, e2v x order1_only are evaluated in a shuffled sequence with repeats and random call '
        'spellings on ONE live object, each result compared with its brute-force definition and with the model; a sample is '
        're-evaluated as the first query of a fresh equal object; returned matrices are re-compared at the end of the '
        'sequence and the user data after every call; one object in four reaches its content through public in-place '
        'connectivity edits before the first query; every 11th mesh is a LARGE-DIAMETER chain / ring of elements sharing 1-2 '
        'corner nodes (uniform, mixed, tet+tet2 / hex+hex2 in one mesh; line rings: n_node == n_element); 10 % of the meshes get '
        'negative and zero ids, 10 % a repeated node inside an element / twin elements, 25 % an integer dtype (int16 ... uint64) / '
        'Fortran order / read-only flag for the id and connectivity arrays; every 13th mesh is queried through a derived object '
        '(to_first_order, cut_with_element_ids / _type / _node_ids, optionally after queries on the parent); raising calls outside '
        'the quantifier are interleaved (not judged); a case = one (mesh, history prefix, matrix, options, spelling); '
        'non-trivial = the matrix has at least one off-diagonal entry')
ASSUMPTIONS = ['scipy.sparse Boolean product = OR of ANDs (reproduced by the model, validated by this correspondence)',
               'second-order types other than tet2 / hex2 raise in to_first_order and are not generated',
               'an object whose connectivity was edited through public means (in place through elements[t].data, the data '
               'setter, .loc[[id]].data, elements.update({t: attr})) BEFORE any graph query is "a mesh" of the quantifier; its '
               'content is what elements[t].ids / elements[t].data show at the time of the first query (edits BETWEEN '
               'queries are C19\'s open finding F11 and are not made here)',
               'a matrix handed out by an earlier call must still have the entries it had at return when the sequence ends '
               '(compared by value after densifying: scipy itself may canonicalise the index arrays of an operand in place)',
               'the model has natural-number ids: a mesh with negative ids is sent to the driver translated by a constant (node '
               'and element ids separately); the model only uses equality and order of ids (not proved as a theorem)',
               'a FEMData returned by to_first_order / cut_with_element_ids / cut_with_element_type / cut_with_node_ids is "a mesh" '
               'of the quantifier; its content is what its public attributes show when it is returned (a derivation that raises is '
               'C09 / C18\'s subject: counted, the mesh is then queried directly)',
               'calls with an unknown mode and calculate_e2v_matrix(include_self_loop=True) are outside the quantifier: made, never '
               'judged; hop count 0 is not asked (the property speaks of reachability within n >= 1 steps)',
               'the diagonal entry of the self-loop-free n-hop matrix of a vertex WITHOUT self loop (unreferenced node) and the '
               'e2v columns of such vertices are not stated by the property: masked / labelled stream']

MODES = ('elemental', 'nodal')
# kind -> (method, parameters in positional order with defaults, keyword-only)
SIG = {
    'inc': ('calculate_incidence_matrix', (('order1_only', False),), False),
    'adj:elemental': ('calculate_adjacency_matrix_element', (('order1_only', False),), False),
    'adj:nodal': ('calculate_adjacency_matrix_node', (('order1_only', False),), False),
    'adjg': ('calculate_adjacency_matrix', (('mode', 'elemental'), ('order1_only', False)), True),
    'lap': ('calculate_laplacian_matrix', (('mode', 'nodal'), ('order1_only', False)), False),
    'grad': ('calculate_edge_gradient_matrix', (('mode', 'nodal'), ('order1_only', False)), False),
    'nhop': ('calculate_n_hop_adj', (('mode', 'elemental'), ('n_hop', 1), ('include_self_loop', True),
                                     ('order1_only', False)), False),
    'e2v': ('calculate_e2v_matrix', (('mode', 'elemental'), ('include_self_loop', False)), False),
}
WHAT = {'inc': 'incidence', 'adj': 'adjacency', 'adjg': 'adjacency', 'lap': 'laplacian', 'grad': 'edge-gradient',
        'nhop': 'n-hop', 'e2v': 'e2v'}


def dense(m):
    return np.asarray(m.todense()) if hasattr(m, 'todense') else np.asarray(m)


def first_order(t, conn):
    return conn[:4] if t == 'tet2' else conn[:8] if t == 'hex2' else conn


def reach(adj, hops):
    """reachability within 1..hops steps straight from its definition: j is reachable from i within k+1 steps iff it is
    within one step, or some vertex reachable within k steps has j within one step (stops when nothing is added)"""
    a = adj.astype(np.int32)
    ret = adj.astype(bool).copy()
    for _ in range(1, hops):
        nxt = adj.astype(bool) | ((ret.astype(np.int32) @ a) > 0)
        if (nxt == ret).all():
            break
        ret = nxt
    return ret


def diameter(adj):
    """largest FINITE graph distance between two vertices (over all components) of a Boolean adjacency"""
    n = len(adj)
    if n == 0:
        return 0
    a = adj.astype(bool) | np.eye(n, dtype=bool)
    cur, d = np.eye(n, dtype=bool), 0
    while True:
        nxt = (cur.astype(np.int32) @ a.astype(np.int32)) > 0
        if (nxt == cur).all():
            return d
        cur, d = nxt, d + 1


def hop_plan(r, E, quick):
    """the hop counts asked on this mesh: always 1, 2, 3; on a graph of diameter D >= 4 also 4, some values in 5..D (where a
    hop more or less changes the matrix) and one value beyond D (saturated); on short graphs sometimes one larger value
    (saturated: binary patterns 4, 5, 7, 8, 16, 33)"""
    D = max(diameter(E.A['elemental', False]), diameter(E.A['nodal', False]))
    E.diam = D
    E.coin = (lambda: r.random() < .5) if quick else None
    hops = [1, 2, 3]
    if D >= 4:
        mid = list(range(5, D + 1))
        hops += [4] + r.sample(mid, min(len(mid), (1 if len(E.nids) > 40 else 2) if quick else 5)) + [r.choice([D + 1, D + 1, D + 2, D + 3])]
    elif not quick:
        hops += [4, r.choice([5, 7, 8, 16, 33])]
    elif r.random() < .25:
        hops += [r.choice([4, 4, 5, 7, 8, 16, 33])]
    return sorted(set(hops))


# ------------------------------------------------------------------------------------------------ queries

def q_what(q):
    return WHAT[q[0]] + ('' if q[0] == 'inc' else '-' + q[1])


def q_opts(q):
    kind, mode, o1, hops, sl = q
    if kind == 'nhop':
        return {'n_hop': hops, 'include_self_loop': sl, 'order1_only': o1}
    if kind == 'e2v':
        return {'include_self_loop': sl}
    if kind == 'adjg':
        return {'order1_only': o1, 'via': 'calculate_adjacency_matrix'}
    return {'order1_only': o1}


def q_sig(q):
    kind, mode = q[0], q[1]
    return SIG[kind + ':' + mode] if kind == 'adj' else SIG[kind]


def q_values(q):
    kind, mode, o1, hops, sl = q
    return {'mode': mode, 'order1_only': o1, 'n_hop': hops, 'include_self_loop': sl}


def spell(r, q):
    """one way of writing the call: number of positional arguments, names of the keyword arguments in order; an
    argument equal to its default may be omitted (lru_cache keys differ between all of these)"""
    _, params, kwonly = q_sig(q)
    vals = q_values(q)
    npos = 0 if kwonly else r.choice([0, 0, 1, len(params), r.randint(0, len(params))])
    npos = min(npos, len(params))
    kw = [n for n, d in params[npos:] if not (vals[n] == d and r.random() < .5)]
    if len(kw) > 1 and r.random() < .3:
        r.shuffle(kw)
    if q[0] == 'nhop' and r.random() < .15:
        # the hop count as a numpy integer (what `for n in np.arange(...)` / an array element hands over): equal to and
        # hashing like the Python int, so also the same lru_cache key
        return [npos, kw, r.choice(NP_INTS)]
    return [npos, kw]


NP_INTS = ['int64', 'int32', 'uint8', 'intp']


def arg_values(q, sp):
    vals = q_values(q)
    if len(sp) > 2 and sp[2] and vals.get('n_hop') is not None:
        vals['n_hop'] = getattr(np, sp[2])(vals['n_hop'])
    return vals


def call(fd, q, sp):
    meth, params, _ = q_sig(q)
    vals = arg_values(q, sp)
    npos, kw = sp[:2]
    pos = [vals[n] for n, _ in params[:npos]]
    with warnings.catch_warnings():
        warnings.simplefilter('ignore')
        return mg.quiet(getattr(fd, meth), *pos, **{n: vals[n] for n in kw})


def spelled(q, sp):
    meth, params, _ = q_sig(q)
    vals = arg_values(q, sp)
    npos, kw = sp[:2]
    return meth + '(' + ', '.join([repr(vals[n]) for n, _ in params[:npos]] + [f'{n}={vals[n]!r}' for n in kw]) + ')'


BAD_QUERIES = [('nhop', 'volumetric', False, 2, True), ('lap', 'volumetric', False, None, None),
               ('grad', 'edge', False, None, None), ('adjg', 'volumetric', False, None, None),
               ('e2v', 'volumetric', None, None, False), ('e2v', 'elemental', None, None, True), ('e2v', 'nodal', None, None, True)]


def is_bad(q):
    """an unknown mode, or calculate_e2v_matrix(include_self_loop=True) (unsupported: AttributeError): outside the quantifier"""
    return (q[0] != 'inc' and q[1] not in MODES) or (q[0] == 'e2v' and bool(q[4]))


def queries(E, hops):
    """every (matrix, options) the property talks about, for a mesh with expectation E and the hop counts `hops`"""
    qs = []
    for o1 in (False, True):
        qs.append(('inc', None, o1, None, None))
        for mode in MODES:
            off = E.offdiag(mode, o1)
            qs.append(('adj', mode, o1, None, None))
            # calculate_adjacency_matrix(mode='elemental') ignores order1_only (documented: "effective only when
            # mode == 'nodal'"): asked with order1_only=True only where that cannot matter (first-order meshes)
            if mode == 'nodal' or not o1 or not E.second:
                qs.append(('adjg', mode, o1, None, None))
            qs.append(('lap', mode, o1, None, None))
            if off.any():        # no edge: np.concatenate([]) raises; the property speaks of the rows per edge
                qs.append(('grad', mode, o1, None, None))
            if mode == 'elemental' and o1 and E.second:
                continue         # n-hop: the elemental adjacency ignores order1_only as well
            for h in hops:
                # 1-3 hops with and without self loops; larger hop counts with one of the two (E.coin: drawn per mesh)
                for sl in ((True, False) if h <= 3 or not E.coin else (E.coin(),)):
                    qs.append(('nhop', mode, o1, h, sl))
    for mode in MODES:
        qs.append(('e2v', mode, None, None, False))   # include_self_loop=True raises AttributeError: unsupported option
    return qs


# ------------------------------------------------------------------------------------------------ expectation

def public_blocks(fd):
    return {t: [(int(e), [int(n) for n in c]) for e, c in zip(a.ids, a.data)] for t, a in fd.elements.items()}


class Expect:
    """brute-force definitions from the public state of an object (read BEFORE any query): node rows by storage
    position (nodes.ids), element columns in the order of elements.ids, connectivity from the per-type blocks"""

    def __init__(self, fd):
        self.nids = [int(i) for i in fd.nodes.ids]
        self.eids = [int(i) for i in fd.elements.ids]
        by_id = {}
        for t, a in fd.elements.items():
            for e, c in zip(a.ids, a.data):
                by_id[int(e)] = (t, [int(n) for n in c])
        self.types = [by_id[e][0] for e in self.eids]
        self.conns = [by_id[e][1] for e in self.eids]
        self.second = any('2' in t for t in self.types)
        self.B = {o1: self._incidence(o1) for o1 in (False, True)}
        self.A = {}
        self._reach, self._nontrivial = {}, {}
        self.diam = -1
        self.coin = None
        for o1 in (False, True):
            B = self.B[o1].astype(int)
            self.A['elemental', o1] = (B.T @ B) > 0
            self.A['nodal', o1] = (B @ B.T) > 0

    def _incidence(self, order1):
        conns, nids = self.conns, self.nids
        if order1:
            conns = [first_order(t, c) for t, c in zip(self.types, conns)]
            if self.second:
                corner = {n for c in conns for n in c}
                nids = [i for i in nids if i in corner]
        inc = np.zeros((len(nids), len(self.eids)), dtype=bool)
        pos = {i: k for k, i in enumerate(nids)}
        for j, c in enumerate(conns):
            for n in c:
                inc[pos[n], j] = True
        return inc

    def adj(self, q):
        kind, mode, o1 = q[0], q[1], q[2]
        if mode == 'elemental' and kind in ('adjg', 'nhop', 'e2v'):
            o1 = False      # these use calculate_adjacency_matrix_element() (see queries())
        if kind == 'e2v':
            o1 = False
        return self.A[mode, bool(o1)]

    def reach(self, q):
        key = (q[1], self.adj(q) is self.A[q[1], True], q[3])
        if key not in self._reach:
            self._reach[key] = reach(self.adj(q), q[3])
        return self._reach[key]

    def offdiag(self, mode, o1):
        A = self.A[mode, o1]
        return A & ~np.eye(len(A), dtype=bool)


def canon(q, raw):
    """the observable of a result that the property talks about (a new object, never aliasing `raw`)"""
    kind = q[0]
    if kind in ('inc', 'adj', 'adjg'):
        return np.array(dense(raw).astype(bool))
    if kind in ('lap', 'nhop'):
        return np.array(dense(raw).astype(int))
    if kind == 'grad':
        G = dense(raw).astype(int)
        rows = []
        for row in G:
            p, m = np.flatnonzero(row == 1), np.flatnonzero(row == -1)
            if len(p) != 1 or len(m) != 1 or np.count_nonzero(row) != 2:
                return ('malformed-row', G.shape[1], [int(v) for v in row][:40])
            rows.append((int(p[0]), int(m[0])))
        return ('rows', G.shape[1], sorted(rows))
    E = raw.tocoo()
    cols_ok = sorted(E.col.tolist()) == list(range(E.shape[1])) and bool((np.asarray(E.data) == 1).all())
    return ('e2v', tuple(int(v) for v in E.shape), sorted(int(v) for v in E.row), cols_ok)


def same(a, b):
    if isinstance(a, np.ndarray) or isinstance(b, np.ndarray):
        return isinstance(a, np.ndarray) and isinstance(b, np.ndarray) and a.shape == b.shape and bool((a == b).all())
    return a == b


def brief(c):
    if isinstance(c, np.ndarray):
        return {'shape': list(c.shape), 'rows': c.astype(int).tolist()[:10]}
    return [list(x)[:40] if isinstance(x, (list, tuple)) else x for x in c]


def judge(E, q, c):
    """(ok, isolated-vertex stream?)  -  does the canonical result equal the combinatorial definition?"""
    kind, mode, o1, hops, sl = q
    if kind == 'inc':
        return same(c, E.B[bool(o1)]), False
    Ab = E.adj(q)
    n = len(Ab)
    eye = np.eye(n, dtype=bool)
    off = ~eye
    if kind in ('adj', 'adjg'):
        return same(c, Ab), False
    if kind == 'lap':
        if c.shape != (n, n):
            return False, False
        deg = (Ab & off).sum(axis=1)
        return (bool((c.sum(axis=1) == 0).all()) and bool((c[off] == Ab[off].astype(int)).all())
                and bool((np.diag(c) == -deg).all())), False
    if kind == 'grad':
        und = sorted((int(a), int(b)) for a, b in np.argwhere(Ab & off) if a < b)
        return c == ('rows', n, und), False
    if kind == 'nhop':
        if c.shape != (n, n):
            return False, False
        want = E.reach(q).astype(int) - (0 if sl else eye.astype(int))
        mask = np.ones((n, n), dtype=bool)
        if not sl:
            # a vertex without self loop (unreferenced node): its diagonal entry is not stated by the property
            iso = np.flatnonzero(~np.diag(Ab))
            mask[iso, iso] = False
        return bool((c[mask] == want[mask]).all()), False
    # e2v
    directed = np.argwhere(Ab if sl else (Ab & off))
    srcs = sorted(int(a) for a, _ in directed)
    ok = c[0] == 'e2v' and c[3] and c[1] == (n, len(directed)) and c[2] == srcs
    isolated = bool((~np.diag(Ab)).any())
    return ok, (isolated and not sl)


def nontrivial(E, q):
    if q not in E._nontrivial:
        if q[0] == 'inc':
            v = bool(E.B[bool(q[2])].any())
        else:
            Ab = E.reach(q) if q[0] == 'nhop' else E.adj(q)
            v = bool((Ab & ~np.eye(len(Ab), dtype=bool)).any())
        E._nontrivial[q] = v
    return E._nontrivial[q]


# ------------------------------------------------------------------------------------------------ model

def model_line(q):
    kind, mode, o1, hops, sl = q
    if kind == 'inc':
        return f'c13.inc {int(o1)}'
    if kind in ('adj', 'adjg'):
        return f'c13.adj {mode} {int(bool(o1) and not (kind == "adjg" and mode == "elemental"))}'
    if kind == 'lap':
        return f'c13.lap {mode} {int(o1)}'
    if kind == 'grad':
        return f'c13.grad {mode} {int(o1)}'
    if kind == 'nhop':
        return f'c13.nhop {mode} {hops} {int(sl)} {int(o1)}'
    return f'c13.e2v {mode} {int(sl)}'


def model_canon(q, rep):
    t = C.Toks(rep)
    if t.tok() != 'ok':
        raise RuntimeError(f'driver: {rep[:200]} for {model_line(q)}')
    kind = q[0]
    if kind == 'inc':
        nN, nE = t.nat(), t.nat()
        m = np.zeros((nN, nE), dtype=bool)
        for _ in range(t.nat()):
            a, b = t.nat(), t.nat()
            m[a, b] = True
        return m
    if kind in ('adj', 'adjg'):
        n = t.nat()
        m = np.zeros((n, n), dtype=bool)
        for _ in range(t.nat()):
            a, b = t.nat(), t.nat()
            m[a, b] = True
        return m
    if kind in ('lap', 'nhop'):
        n = t.nat()
        m = np.zeros((n, n), dtype=int)
        for _ in range(t.nat()):
            a, b, v = t.nat(), t.nat(), int(t.tok())
            m[a, b] = v
        return m
    if kind == 'grad':
        n = t.nat()
        k = t.nat()
        return ('rows', n, sorted((t.nat(), t.nat()) for _ in range(k)))
    mn, k = t.nat(), t.nat()
    return ('e2v', (mn, k), t.lst(t.nat), True)


class ModelJob:
    """all model requests of one mesh, answered by the driver while the real code runs"""

    def __init__(self, ctx, enc, qs):
        self.lines = sorted({model_line(q) for q in qs})
        self.replies, self.err = None, None
        self.enc = enc
        self.t = None
        if ctx.driver is not None:
            self.t = threading.Thread(target=self._run, args=(ctx.driver,))
            self.t.start()

    def _run(self, driver):
        try:
            self.replies = dict(zip(self.lines, driver.ask_many([ln + ' ' + self.enc for ln in self.lines])))
        except Exception as e:      # re-raised in the main thread
            self.err = e

    def wait(self):
        if self.t is None:
            return None
        self.t.join()
        if self.err is not None:
            raise self.err
        return self.replies


# ------------------------------------------------------------------------------------------------ generators

ID_STYLES = ['dense', 'sparse', 'large', 'huge', 'prefix', 'offset', 'gapped']
ORDERS = ['asc', 'desc', 'shuf', 'midshuf', 'swap2', 'shuf']
EID_STYLES = ['random', 'random', 'interleaved', 'typeblocked', 'typeblocked-rev', 'as-node-ids', 'gapped', 'offset']


def small_ids(r, n, style):
    """'sparse but small' id sets: `offset` = one contiguous range not starting at 1; `gapped` = two or three dense ranges
    separated by gaps of about n (sums / differences / offsets of such ids collide where random sparse ids do not)"""
    if style == 'offset':
        k = r.choice([2, 3, n, n + 1, 2 * n, 100, 1000, 10 ** 6])
        return list(range(k, k + n))
    parts = r.randint(2, 3) if n >= 3 else 2 if n == 2 else 1
    cuts = sorted(r.sample(range(1, n), parts - 1)) if n > 1 else []
    sizes = [b - a for a, b in zip([0] + cuts, cuts + [n])]
    ids, start = [], r.choice([1, 1, 2, n])
    for s in sizes:
        ids += list(range(start, start + s))
        start += s + r.choice([n - 1, n, n + 1, s, 2 * n])
    return ids


def relabel_nodes(r, m, style):
    """rank-preserving relabelling of the node ids (the storage-order class is kept)"""
    old = sorted(i for i, _ in m['nodes'])
    new = sorted(small_ids(r, len(old), style))
    f = dict(zip(old, new))
    m = dict(m)
    m['nodes'] = [(f[i], p) for i, p in m['nodes']]
    m['blocks'] = {t: [(e, [f[n] for n in c]) for e, c in b] for t, b in m['blocks'].items()}
    m['id_style'] = style
    return m


def relabel_elems(r, m, style):
    """element ids: interleaving the types (round robin), blocked by type in / against ELEMENT_TYPES order, drawn from
    the node ids, small gapped / offset ranges; the storage order inside a block stays as generated (shuffled)"""
    if style == 'random':
        return m
    blocks = m['blocks']
    n = sum(len(b) for b in blocks.values())
    if style == 'as-node-ids':
        pool = sorted(i for i, _ in m['nodes'])
        ids = sorted(r.sample(pool, n)) if len(pool) >= n else list(range(1, n + 1))
    elif style in ('gapped', 'offset'):
        ids = sorted(small_ids(r, n, style))
    else:
        base = r.choice([1, 1, 7, 1000])
        ids = list(range(base, base + n))
    ts = list(blocks)
    if style == 'typeblocked-rev':
        slots = [t for t in reversed(ts) for _ in blocks[t]]
    elif style == 'typeblocked':
        slots = [t for t in ts for _ in blocks[t]]
    elif style == 'interleaved':
        left = {t: len(blocks[t]) for t in ts}
        slots = []
        while len(slots) < n:
            for t in ts:
                if left[t]:
                    slots.append(t)
                    left[t] -= 1
    else:
        slots = [t for t in ts for _ in blocks[t]]
        r.shuffle(slots)
    per = {t: [i for i, s in zip(ids, slots) if s == t] for t in ts}
    out = {}
    for t in ts:
        r.shuffle(per[t])
        out[t] = [(e, c) for e, (_, c) in zip(per[t], blocks[t])]
    m = dict(m)
    m['blocks'] = out
    m['eid_style'] = style
    return m


def gen_components(r, quick, id_style, order):
    """disjoint union of 2-4 components: small combinatorial / geometric meshes, ISOLATED SINGLE ELEMENTS (sharing no
    node with anything) and, sometimes, isolated nodes; the components interleave in node and element storage"""
    parts = []
    for _ in range(r.randint(2, 4)):
        u = r.random()
        if u < .45:
            t = r.choice(['line', 'tri', 'quad', 'tet', 'tet2', 'pyr', 'prism', 'hex', 'hex2'])
            parts.append(mg.gen_combinatorial(r, types=[t], n_nodes=mg.ARITY[t], max_elems=1, id_style='dense',
                                              order='asc', unref=False))
        elif u < .8:
            parts.append(mg.gen_combinatorial(r, max_elems=3 if quick else 5, id_style='dense', order='asc', unref=False))
        else:
            p = mg.gen_geometric(r, max_cells=1 if quick else 2, jitter=False, voids=False, unref=False, id_style='dense',
                                 order='asc')
            parts.append(mg.promote_tet2(r, p) if p['kind'] == 'tet' and r.random() < .5 else p)
    nodes, elems = [], []
    for k, p in enumerate(parts):
        f = {i: (k, i) for i, _ in p['nodes']}
        nodes += [(f[i], xyz) for i, xyz in p['nodes']]
        elems += [(t, (k, e), [f[n] for n in c]) for t, b in p['blocks'].items() for e, c in b]
    n_unref = sum(p.get('n_unref', 0) for p in parts)
    if r.random() < .3:
        for j in range(r.randint(1, 2)):
            nodes.append((('iso', j), (mg.F(90 + j), mg.F(90), mg.F(90))))
            n_unref += 1
    return assemble(r, 'components', nodes, elems, id_style, order, n_unref, n_parts=len(parts))


def assemble(r, kind, nodes, elems, id_style, order, n_unref, **extra):
    """nodes [(key, xyz)], elems [(type, key, [node keys])] -> mesh with node ids of the given style assigned at random to
    the keys, the storage-order class `order`, shuffled element storage and random element ids"""
    keys = [k for k, _ in nodes]
    if id_style in ('offset', 'gapped'):
        id_list = small_ids(r, len(keys), id_style)
    else:
        id_list, _ = mg.random_ids(r, len(keys), id_style)
    r.shuffle(id_list)
    idmap = dict(zip(keys, id_list))
    keys, order = mg.order_ids(r, keys, idmap, order)
    xyz = dict(nodes)
    eids, _ = mg.random_ids(r, len(elems), r.choice(['dense', 'sparse', 'large']))
    r.shuffle(eids)
    elems = list(elems)
    r.shuffle(elems)
    blocks = {}
    for (t, _, c), e in zip(elems, eids):
        blocks.setdefault(t, []).append((e, [idmap[n] for n in c]))
    blocks = {t: blocks[t] for t in mg.ELEMENT_TYPES if t in blocks}
    return dict({'kind': kind + ':' + '+'.join(sorted(blocks)), 'order': order, 'id_style': id_style,
                 'nodes': [(idmap[k], xyz[k]) for k in keys], 'blocks': blocks, 'n_unref': n_unref}, **extra)


N_CORNER = {'line': 2, 'tri': 3, 'quad': 4, 'tet': 4, 'pyr': 5, 'prism': 6, 'hex': 8, 'tet2': 4, 'hex2': 8}
LONG_FIRST = ['line', 'tri', 'quad', 'tet', 'pyr', 'prism', 'hex']


def gen_long(r, quick, id_style, order):
    """LARGE-DIAMETER graphs as a deliberate style (n-hop matrices with 4 and more hops only differ from fewer hops here):
    an open chain or a closed ring of elements in which consecutive elements share s = 1 or 2 CORNER nodes and nothing
    else (element graph = path / cycle); uniform, mixed first-order types, or first + second order of one shape in ONE
    mesh (tet + tet2, hex + hex2); a ring of n line elements / 2-node-sharing ... has n_node == n_element (square
    incidence matrix); optionally a second short chain or a single element as a separate component and an isolated node"""
    u = r.random()
    if u < .45:
        pool = [r.choice(LONG_FIRST + ['tet2', 'line', 'tri', 'quad'])]
    elif u < .75:
        pool = r.sample(LONG_FIRST, r.randint(2, 3))
    else:
        pool = r.choice([['tet', 'tet2'], ['hex', 'hex2'], ['tet', 'tet2', 'hex'], ['quad', 'tet2']])
    budget = 60 if quick else 130
    closed = r.random() < .3
    want = r.randint(8, 12) if closed else r.randint(5, 10) if quick else r.randint(5, 18)
    s = 2 if (all(N_CORNER[t] >= 4 for t in pool) and r.random() < .4) else 1
    nodes, elems = [], []

    def chain(tag, types, s, closed):
        n = len(types)
        link = [[(tag, 'l', j, a) for a in range(s)] for j in range(n + (0 if closed else 1))]
        for j, t in enumerate(types):
            own = [(tag, 'o', j, a) for a in range(mg.ARITY[t] - 2 * s)]
            conn = link[j] + link[(j + 1) % len(link)] + own
            # the shared nodes sit at corner positions (the first 2 s of the connectivity), in a random arrangement
            head = conn[:2 * s]
            r.shuffle(head)
            tail = conn[2 * s:N_CORNER[t]]
            corner = head + tail
            r.shuffle(corner)
            elems.append((t, (tag, j), corner + conn[N_CORNER[t]:]))
        for grp in link:
            for key in grp:
                nodes.append((key, (mg.F(len(nodes)), mg.F(r.randint(-9, 9), 2), mg.F(r.randint(-9, 9)))))
        for j, t in enumerate(types):
            for a in range(mg.ARITY[t] - 2 * s):
                nodes.append(((tag, 'o', j, a), (mg.F(len(nodes)), mg.F(r.randint(-9, 9), 4), mg.F(r.randint(-9, 9)))))

    types, used = [], 0
    while len(types) < want:
        t = pool[len(types)] if len(types) < len(pool) else r.choice(pool)
        if used + mg.ARITY[t] - s > budget and len(types) >= 3:
            break
        types.append(t)
        used += mg.ARITY[t] - s
    if closed and len(types) < 3:
        closed = False
    chain('a', types, s, closed)
    n_parts, n_unref = 1, 0
    if r.random() < .5:
        n_parts = 2
        t2 = [r.choice(pool + ['tri', 'line']) for _ in range(r.randint(1, 3))]
        chain('b', t2, 1, False)
    if r.random() < .15:
        nodes.append((('iso', 0), (mg.F(-5), mg.F(90), mg.F(90))))
        n_unref = 1
    m = assemble(r, 'long-' + ('ring' if closed else 'chain') + str(s), nodes, elems, id_style, order, n_unref,
                 n_parts=n_parts)
    return m


def gen_mesh(ctx, k):
    """mesh k of the run (see gen_base); every 13th one is queried THROUGH A DERIVED OBJECT (gen_derive)"""
    r = ctx.rng
    m = gen_base(ctx, k)
    u = r.random()
    if u < .1:
        m = signed_ids(r, m)
    elif u < .2:
        m = many_to_one(r, m)
    if r.random() < .25:
        m = dict(m, layout=gen_layout(r, m))
    if k % 13 == 7:
        m = dict(m, derive=gen_derive(r, m))
    return m


def signed_ids(r, m):
    """NEGATIVE AND ZERO ids together with the positive ones (rank-preserving: the lowest third of the node ids, and with
    probability 1/2 of the element ids, is shifted so that its largest member becomes 0; the storage-order class is kept)"""
    def shift(ids):
        low = sorted(ids)[:max(1, len(ids) // 3)]
        return {i: (i - low[-1] if i <= low[-1] else i) for i in ids}
    f = shift([i for i, _ in m['nodes']])
    g = shift([e for b in m['blocks'].values() for e, _ in b]) if r.random() < .5 else {}
    m = dict(m)
    m['nodes'] = [(f[i], p) for i, p in m['nodes']]
    m['blocks'] = {t: [(g.get(e, e), [f[n] for n in c]) for e, c in b] for t, b in m['blocks'].items()}
    m['id_style'] = str(m.get('id_style')) + '+signed'
    return m


def many_to_one(r, m):
    """non-injective structure: an element that lists one node twice (degenerate, as the collapsed hexahedra that
    resolve_degeneracy exists for) and / or two elements of one type with the same members (in another arrangement)"""
    m = dict(m, blocks={t: [(e, list(c)) for e, c in b] for t, b in m['blocks'].items()})
    cand = [(t, i) for t, b in m['blocks'].items() if '2' not in t for i, (_, c) in enumerate(b) if len(c) >= 3]
    what = []
    if cand and r.random() < .7:
        t, i = r.choice(cand)
        c = m['blocks'][t][i][1]
        a, b_ = r.sample(range(len(c)), 2)
        c[a] = c[b_]
        what.append('repeated-node')
    twins = [t for t, b in m['blocks'].items() if len(b) >= 2 and '2' not in t]
    if twins and (not what or r.random() < .5):
        t = r.choice(twins)
        i, j = r.sample(range(len(m['blocks'][t])), 2)
        c = list(m['blocks'][t][i][1])
        r.shuffle(c)
        m['blocks'][t][j] = (m['blocks'][t][j][0], c)
        what.append('twin-elements')
    if what:
        m['kind'] = str(m['kind']).replace(':', '~' + '+'.join(what) + ':', 1) if ':' in str(m['kind']) \
            else str(m['kind']) + '~' + '+'.join(what)
        m['n_unref'] = None
    return m


LAYOUT_DTYPES = ['int32', 'int32', 'uint32', 'uint64', 'int16', 'uint8', 'int64']


def gen_layout(r, m):
    """[dtype of the id and connectivity arrays, connectivity Fortran-ordered?, read-only?] - every integer dtype that can
    hold the ids of the mesh is a legitimate way to hand them over"""
    ids = [i for i, _ in m['nodes']] + [e for b in m['blocks'].values() for e, _ in b]
    lo, hi = min(ids), max(ids)
    ok = [d for d in LAYOUT_DTYPES if np.iinfo(d).min <= lo and hi <= np.iinfo(d).max]
    return [r.choice(ok), r.random() < .5, r.random() < .3]


def to_femio(m):
    """mg.to_femio, with the dtype / memory layout of m['layout'] for the id and connectivity arrays"""
    lay = m.get('layout')
    if not lay:
        return mg.to_femio(m)
    from femio import FEMData, FEMAttribute, FEMElementalAttribute
    dt, forder, ro = lay

    def arr(x, two_d=False):
        a = np.array(x, dtype=dt)
        if two_d and forder:
            a = np.asfortranarray(a)
        if ro:
            a.setflags(write=False)
        return a
    nodes = FEMAttribute('NODE', ids=arr([i for i, _ in m['nodes']]),
                         data=np.array([[float(v) for v in p] for _, p in m['nodes']]), silent=True)
    el = {t: FEMAttribute(t, ids=arr([e for e, _ in b]), data=arr([c for _, c in b], True), silent=True)
          for t, b in m['blocks'].items()}
    return mg.quiet(lambda: FEMData(nodes=nodes, elements=FEMElementalAttribute('ELEMENT', mg.insertion_order(el))))


def enc_model(m):
    """protocol encoding of the mesh for the model, whose ids are natural numbers: a mesh with negative ids is sent
    translated by a constant (node ids and element ids separately) - equality and order of ids, all the model uses, are kept"""
    nmin = min([i for i, _ in m['nodes']] + [0])
    emin = min([e for b in m['blocks'].values() for e, _ in b] + [0])
    if nmin < 0 or emin < 0:
        m = dict(m, nodes=[(i - nmin, p) for i, p in m['nodes']],
                 blocks={t: [(e - emin, [n - nmin for n in c]) for e, c in b] for t, b in m['blocks'].items()})
    return mg.enc_mesh(m)


def gen_base(ctx, k):
    """mesh k of the run: node id style and storage-order class are STRATIFIED over k (every combination occurs in
    every 42 consecutive meshes), everything else is random"""
    r = ctx.rng
    id_style = ID_STYLES[k % len(ID_STYLES)]
    order = ORDERS[k % len(ORDERS)]
    base_style = id_style if id_style not in ('offset', 'gapped') else 'dense'
    if k % 11 == 5:      # 11 is coprime to 6 and 7: the long meshes run through every id style and storage-order class
        return relabel_elems(r, gen_long(r, ctx.quick, id_style, order), r.choice(EID_STYLES))
    u = r.random()
    mc = 2 if ctx.quick else 3
    if u < .35:
        m = mg.gen_geometric(r, max_cells=mc, jitter=False, id_style=base_style, order=order)
        if m['kind'] == 'tet' and r.random() < .5:
            m = mg.promote_tet2(r, m)
    elif u < .75:
        m = mg.gen_combinatorial(r, max_elems=ctx.n(8, 16), id_style=base_style, order=order)
    else:
        return relabel_elems(r, gen_components(r, ctx.quick, id_style, order), r.choice(EID_STYLES))
    if id_style in ('offset', 'gapped'):
        m = relabel_nodes(r, m, id_style)
    return relabel_elems(r, m, r.choice(EID_STYLES))


# ------------------------------------------------------------------------------------------------ public edits (lesson A)

EDIT_MEANS = ['inplace', 'setter', 'loc', 'update-block', 'parent-setter']


def gen_edit(r, m):
    """a plan [means, [[type, row, col, other node id], ...]]: the object is BUILT with `other` at these connectivity
    positions and brought to the content of `m` by public edits before the first query"""
    nids = [i for i, _ in m['nodes']]
    cells = []
    for t, b in m['blocks'].items():
        for ri, (_, c) in enumerate(b):
            if r.random() < .35:
                ci = r.randrange(len(c))
                cand = [n for n in nids if n not in c]
                if cand:
                    cells.append([t, ri, ci, r.choice(cand)])
    if not cells:
        return None
    means = r.choice(EDIT_MEANS if len(m['blocks']) == 1 else EDIT_MEANS[:-1])
    return [means, cells]


def build(m, edit):
    """the femio object of mesh m; with an edit plan: built from the perturbed connectivity, then edited to m"""
    if not edit:
        return to_femio(m)
    from femio import FEMAttribute
    means, cells = edit
    m0 = dict(m, blocks={t: [(e, list(c)) for e, c in b] for t, b in m['blocks'].items()})
    for t, ri, ci, other in cells:
        m0['blocks'][t][ri][1][ci] = other
    fd = to_femio(m0)
    for t, b in m['blocks'].items():
        mine = [x for x in cells if x[0] == t]
        if not mine:
            continue
        a = fd.elements[t]
        arr = np.array([c for _, c in b], dtype=np.asarray(a.data).dtype)     # the dtype the object was built with
        if means == 'inplace':
            for _, ri, ci, _o in mine:
                a.data[ri, ci] = arr[ri, ci]
        elif means == 'setter':
            a.data = arr
        elif means == 'loc':
            for ri in sorted({x[1] for x in mine}):
                sub = a.loc[[b[ri][0]]]
                sub.data = arr[[ri]]
        elif means == 'update-block':
            mg.quiet(fd.elements.update, {t: FEMAttribute(t, ids=np.array([e for e, _ in b], dtype=np.asarray(a.ids).dtype),
                                                           data=arr, silent=True)})
        elif means == 'parent-setter':
            fd.elements.data = arr
        else:
            raise ValueError(means)
    return fd


# ------------------------------------------------------------------------------------------------ derived objects (S)

def gen_derive(r, m):
    """a plan [[operation, argument], ...] of public operations that return a NEW FEMData (whose element blocks / tables
    were built from the parent's): the graph queries are then made on the result, which is "a mesh" like any other;
    'warm' = the parent answers graph queries first (its caches are filled before the derivation)"""
    second = any('2' in t for t in m['blocks'])
    eids = [e for b in m['blocks'].values() for e, _ in b]
    ops = []
    u = r.random()
    if second and u < .4:
        ops.append(['to_first_order', None])
    if not ops or r.random() < .4:
        v = r.random()
        if v < .55 or len(eids) < 2:
            sub = r.sample(eids, r.randint(max(1, len(eids) // 2), len(eids)))      # in a non-ascending order
            cut = ['cut_with_element_ids', sub]
        elif v < .75 and len(m['blocks']) > 1:
            cut = ['cut_with_element_type', r.choice(list(m['blocks']))]
        else:
            keep = r.sample(eids, r.randint(1, len(eids)))
            conn = {e: c for b in m['blocks'].values() for e, c in b}
            nids = sorted({n for e in keep for n in conn[e]})
            r.shuffle(nids)
            cut = ['cut_with_node_ids', nids]
        ops.insert(r.randint(0, len(ops)), cut)
    if r.random() < .4:
        ops.insert(0, ['warm', None])
    return ops


def derive(fd, ops):
    """-> (derived object, [parents kept alive])"""
    parents = []
    for op, arg in ops:
        if op == 'warm':
            with warnings.catch_warnings():
                warnings.simplefilter('ignore')
                mg.quiet(fd.calculate_adjacency_matrix_element)
                mg.quiet(fd.calculate_n_hop_adj, 'nodal', 2)
            continue
        parents.append(fd)
        if op == 'to_first_order':
            fd = mg.quiet(fd.to_first_order)
        elif op == 'cut_with_element_type':
            fd = mg.quiet(fd.cut_with_element_type, arg)
        elif op in ('cut_with_element_ids', 'cut_with_node_ids'):
            fd = mg.quiet(getattr(fd, op), np.array(arg))
        else:
            raise ValueError(op)
    return fd, parents


def mesh_of(fd, m):
    """the public state of an object as a mesh description (for the model and the evidence)"""
    return {'kind': 'derived(' + str(m['kind']) + ')', 'order': m['order'], 'id_style': m.get('id_style'),
            'eid_style': m.get('eid_style', 'random'),
            'nodes': [(int(i), tuple(mg.F(float(v)) for v in p)) for i, p in zip(fd.nodes.ids, fd.nodes.data)],
            'blocks': {t: [(int(e), [int(n) for n in c]) for e, c in zip(a.ids, a.data)] for t, a in fd.elements.items()}}


# ------------------------------------------------------------------------------------------------ one mesh

def userdata(fd):
    """bit-exact snapshot of the user data of an object"""
    out = {}

    def put(name, a):
        a = np.asarray(a)
        if a.dtype == object:
            out[name] = ('object', repr([np.asarray(x).tolist() for x in a]))
        else:
            out[name] = (a.dtype.str, a.shape, a.tobytes())
    put('nodes.ids', fd.nodes.ids)
    put('nodes.data', fd.nodes.data)
    put('elements.ids', fd.elements.ids)
    put('elements.data', fd.elements.data)
    put('elements.types', np.asarray(fd.elements.types).astype(str))
    for t, a in fd.elements.items():
        put(f'elements[{t}].ids', a.ids)
        put(f'elements[{t}].data', a.data)
    return out


def inside_femio(e):
    return any(str(C.REPO) in f.filename for f in traceback.extract_tb(e.__traceback__))


class Live:
    """one live object and the history of graph queries made on it"""

    def __init__(self, ctx, m, edit, E=None, label='live'):
        self.ctx, self.m, self.edit, self.label = ctx, m, edit, label
        self.fd = build(m, edit)
        self.applied = public_blocks(self.fd) == {t: [(e, list(c)) for e, c in b] for t, b in m['blocks'].items()}
        self.parents = []
        if m.get('derive'):
            self.fd, self.parents = derive(self.fd, m['derive'])
        self.E = E if E is not None else Expect(self.fd)
        self.user0 = self._userdata()
        self.user_reported = False
        self.held = []      # (index in history, q, raw result, canonical value at return)
        self.hist = []      # [q, spelling]

    def step(self, q, sp):
        """evaluate one query; returns ('ok' | 'raises' | 'malformed', canonical value or message, raw)"""
        self.hist.append([list(q), sp])
        try:
            raw = call(self.fd, q, sp)
        except Exception as e:
            if not inside_femio(e):
                raise
            f = [f for f in traceback.extract_tb(e.__traceback__) if str(C.REPO) in f.filename][-1]
            return 'raises', f'{type(e).__name__}: {e} in {f.filename.replace(str(C.REPO) + "/", "")}:{f.lineno} ({f.name})', None
        try:
            c = canon(q, raw)
        except Exception as e:
            return 'malformed', f'{type(e).__name__}: {e}', raw
        self.held.append((len(self.hist) - 1, q, raw, c))
        return 'ok', c, raw

    def _userdata(self):
        out = userdata(self.fd)
        for k, p in enumerate(self.parents):        # a derived object may share arrays with its parents
            if p is not self.fd:
                out.update({f'parent{k}.{n}': v for n, v in userdata(p).items()})
        return out

    def user_changed(self):
        now = self._userdata()
        return sorted(k for k in set(now) | set(self.user0) if now.get(k) != self.user0.get(k))

    def held_changed(self):
        """earlier results that no longer have the value they had when they were returned"""
        out = []
        for i, q, raw, c in self.held:
            try:
                now = canon(q, raw)
            except Exception as e:
                now = ('uninterpretable', repr(e))
            if not same(now, c):
                out.append((i, q, c, now))
        return out


def check_mesh(ctx, m, plan=None):
    """plan (replay): {'edit': ..., 'seq': [[q, spelling], ...], 'fresh': [indices]}; None = draw one"""
    r = ctx.rng
    d = mg.describe(m)
    d['eid_style'] = m.get('eid_style', 'random')
    enc = enc_model(m)
    replaying = plan is not None
    edit = plan.get('edit') if replaying else (gen_edit(r, m) if r.random() < .25 and not m.get('derive') and not (m.get('layout') or [0, 0, 0])[2] else None)
    if m.get('derive'):
        try:
            live = Live(ctx, m, edit)
            ctx.count('stream:derived-object:' + '+'.join(op for op, _ in m['derive']))
            mm = mesh_of(live.fd, m)
            d = dict(mg.describe(mm), eid_style=mm['eid_style'], derived_by=[op for op, _ in m['derive']],
                     parent=mg.describe(m))
            enc = enc_model(mm)
            live.mm = mm
        except Exception as e:
            if not inside_femio(e):
                raise
            # the derivation itself failed (C09 / C18's subject): not judged here, the mesh is queried directly
            ctx.count('stream:derivation-raised(not judged)')
            m = {k_: v for k_, v in m.items() if k_ != 'derive'}
            live = Live(ctx, m, edit)
    else:
        try:
            live = Live(ctx, m, edit)
        except Exception as e:
            if not (edit and inside_femio(e)) or replaying:
                raise
            # the editing means itself raised (C08's subject): not judged here, the mesh is built directly
            ctx.count('stream:public-edit-raised(not judged)')
            edit = None
            live = Live(ctx, m, None)
    E = live.E
    ctx.count('kind:' + ('mixed' if len(m['blocks']) > 1 else 'uniform'))
    ctx.count('gen:' + str(m['kind']).split(':')[0])
    ctx.count('order:' + str(m['order']))
    ctx.count('ids:' + str(m.get('id_style')))
    ctx.count('eids:' + str(m.get('eid_style', 'random')))
    ctx.count('second-order' if E.second else 'first-order')
    if m.get('layout'):
        ctx.count('layout:' + m['layout'][0] + (',F-order' if m['layout'][1] else '') + (',read-only' if m['layout'][2] else ''))
    ctx.count('square-incidence' if len(E.nids) == len(E.eids) else 'non-square-incidence')
    ctx.count('unreferenced-nodes' if (~np.diag(E.A['nodal', False])).any() else 'all-nodes-referenced')
    single = int(((E.A['elemental', False].sum(axis=1)) == 1).sum())
    ctx.count('isolated-single-elements:' + ('0' if not single else '1' if single == 1 else '2+'))
    ctx.count('elements:' + ('1' if len(E.eids) == 1 else '2-5' if len(E.eids) <= 5 else '6+'))
    if edit:
        ctx.count('stream:public-edit-before-first-query:' + edit[0])
        if not live.applied:
            # the editing means itself did not produce the intended content (C08's subject): not judged here
            ctx.count('stream:public-edit-did-not-apply(not judged)')
            live = Live(ctx, m, None)
            E, edit = live.E, None
    qs = queries(E, hop_plan(r, E, ctx.quick) if not replaying else (1, 2, 3))
    ctx.count('graph-diameter:' + ('replay' if replaying else '0-3' if E.diam < 4 else '4-6' if E.diam < 7 else '7+'))
    if replaying:
        seq = [(tuple(q), sp) for q, sp in plan['seq']]
        fresh_at = list(plan.get('fresh', []))
    else:
        seq = [(q, spell(r, q)) for q in r.sample(qs, len(qs))]
        for _ in range(ctx.n(8, 12)):
            i = r.randrange(len(seq))
            j = r.choice([i + 1, r.randint(i + 1, len(seq))])
            seq.insert(j, (seq[i][0], seq[i][1] if r.random() < .5 else spell(r, seq[i][0])))
        if r.random() < .3:
            # calls OUTSIDE the quantifier that (may) raise, in between: what follows on the same object is judged as ever
            for _ in range(r.randint(1, 2)):
                bq = r.choice(BAD_QUERIES)
                seq.insert(r.randrange(len(seq) + 1), (bq, spell(r, bq)))
        fresh_at = sorted(r.sample(range(len(seq)), min(len(seq), ctx.n(6, 8))))
    job = ModelJob(ctx, enc, [q for q, _ in seq if not is_bad(q)])
    try:
        _check_history(ctx, m, d, enc, edit, live, seq, fresh_at, job)
    finally:
        if job.t is not None:
            job.t.join()      # never leave a reader thread on the driver's pipe behind


def _check_history(ctx, m, d, enc, edit, live, seq, fresh_at, job):
    E = live.E
    case0 = {'mesh': mg.to_json(m), 'edit': edit}
    if m.get('derive'):
        case0['derive'] = m['derive']
    if m.get('layout'):
        case0['layout'] = m['layout']
    results = []

    def case_of(upto, extra=None, shrink=None, sig=None):
        hist = seq[:upto + 1]
        if shrink and not getattr(ctx, 'c13_replaying', False) and all(f['signature'] != sig for f in ctx.failures):
            hist = shrink_history(ctx, m, edit, hist, shrink)
        return mk_case(hist, edit, extra)

    def mk_case(hist, edit_, extra=None):
        return dict(case0, edit=edit_, seq=[[list(q), sp] for q, sp in hist],
                    calls=[spelled(q, sp) for q, sp in hist], **(extra or {}))

    def first_query(q, sp, edited):
        """the same call as the FIRST query of an independently built object with the same content (edited: of an
        object that reached the content through the same public edits) -> (status, canonical value, judged right)"""
        f = Live(ctx, m, edit if edited else None, E=None if (edit and not edited) else E, label='fresh')
        st, c, _ = f.step(q, sp)
        return st, c, st == 'ok' and any(judge(f.E, q, c))     # (an isolated vertex puts e2v outside the quantifier)

    def classify(q, sp, i, what):
        """slow path, only after a failure of call #i: is it the input alone, the public edit, or the preceding calls?"""
        if m.get('derive'):
            mm = {k_: v for k_, v in live.mm.items()}
            f = Live(ctx, mm, None, label='direct')
            st_, c_, _ = f.step(q, sp)
            if not (st_ == 'ok' and any(judge(f.E, q, c_))):
                return what, dict(mesh=mg.to_json(mm), edit=None, seq=[[list(q), sp]], calls=[spelled(q, sp)]), \
                    '; the same call fails as the first query of an object built directly from the same content'
            if not first_query(q, sp, False)[2]:
                return prefix + what, mk_case([(q, sp)], None), \
                    ('; it is correct as the first query of an object built directly from the same content and wrong as '
                     'the first query of the derived object')
            return prefix + 'history:' + what, case_of(i, shrink='value', sig=prefix + 'history:' + what), \
                '; the same call as the first query of an equal derived object is correct: the preceding calls matter'
        if not first_query(q, sp, False)[2]:
            return what, mk_case([(q, sp)], None), \
                '; the same call fails as the first query of a fresh object built from the same content'
        if edit and not first_query(q, sp, True)[2]:
            return prefix + what, mk_case([(q, sp)], edit), \
                ('; it is correct as the first query of a fresh object built from the same content and wrong as the first '
                 'query of an object that reached this content through the edits')
        return prefix + 'history:' + what, case_of(i, shrink='value', sig=prefix + 'history:' + what), \
            '; the same call as the first query of an equal object is correct: the preceding calls on the object matter'

    prefix = 'after-public-edit:' if edit else ''
    where = (f' after public connectivity edits ({edit[0]}) before the first query' if edit else '')
    if m.get('derive'):
        where = ' obtained by ' + ' -> '.join(op for op, _ in m['derive'])
        prefix = 'derived-object:'
    for i, (q, sp) in enumerate(seq):
        what = q_what(q)
        if is_bad(q):
            n_held = len(live.held)
            st, c, raw = live.step(q, sp)
            del live.held[n_held:]
            ctx.count(f'stream:call-outside-quantifier({"raises" if st == "raises" else "returns"}; not judged)')
            results.append(('skip', None))
            continue
        st, c, raw = live.step(q, sp)
        ctx.case((enc, repr(edit), i, q, repr(sp)),
                 sample={'mesh': d, 'matrix': what, 'options': q_opts(q), 'call': spelled(q, sp), 'position_in_history': i},
                 nontrivial=nontrivial(E, q))
        ctx.count('matrix:' + what)
        results.append((st, c))
        desc = (f'{spelled(q, sp)} as call #{i} of a history on one object{where} ({d["kind"]} mesh, {d["order"]} storage '
                f'order, {d["id_style"]} ids)')
        if st != 'ok':
            sig, cs, why = classify(q, sp, i, f'{"raises" if st == "raises" else "malformed-result"}:{what}')
            ctx.fail(sig, f'{desc}: {c}{why}', cs, c)
            continue
        ok, outside = judge(E, q, c)
        if outside:
            # an isolated vertex is outside the property's quantifier for e2v: separate labelled stream, never `fail`
            ctx.count('stream:e2v-with-isolated-vertex(outside quantifier)')
            if not ok:
                ctx.count('note:e2v spurious column for isolated vertex (F13)')
            ok = True
        if not ok:
            sig, cs, why = classify(q, sp, i, what)
            ctx.fail(sig, f'{what}{q_opts(q)} differs from its combinatorial definition: {desc}{why}', cs, brief(c))
        elif i in fresh_at:
            ctx.count('fresh-object-cross-check')
            fst, fc, fok = first_query(q, sp, False)
            if not fok:
                ctx.fail(what if fst == 'ok' else f'{"raises" if fst == "raises" else "malformed-result"}:{what}',
                         f'{what}{q_opts(q)} differs from its combinatorial definition: {spelled(q, sp)} as the first query of '
                         f'a fresh object ({d["kind"]} mesh, {d["order"]} storage order, {d["id_style"]} ids)',
                         mk_case([(q, sp)], None), fc if fst != 'ok' else brief(fc))
            elif not same(fc, c):
                ctx.count('note:live and fresh result differ in a detail the property does not state')
        # user data after every call
        if not live.user_reported:
            ch = live.user_changed()
            if ch:
                live.user_reported = True
                ctx.fail(f'{prefix}user-data-changed:{what}', f'{desc} modified the user data of the object in place: {ch}',
                         case_of(i, {'check': 'user-data'}, shrink='user', sig=f'{prefix}user-data-changed:{what}'), ch)
    # every matrix handed out earlier must still be what it was
    for (i, q, c0, now) in live.held_changed()[:3]:
        culprit = locate_culprit(ctx, m, edit, seq, i)
        ctx.fail(f'{prefix}returned-matrix-modified:{q_what(q)}',
                 f'the {q_what(q)}{q_opts(q)} matrix returned by call #{i} ({spelled(q, seq[i][1])}) of a history on one object'
                 f'{where} was modified in place by a later call'
                 + (f' (call #{culprit}: {spelled(*seq[culprit])})' if culprit is not None else '')
                 + f' ({d["kind"]} mesh)', case_of(culprit if culprit is not None else len(seq) - 1, {'check': 'held'},
                                                  shrink='held', sig=f'{prefix}returned-matrix-modified:{q_what(q)}'),
                 {'at_return': brief(c0), 'now': brief(now)})
    # correspondence
    replies = job.wait()
    if replies is not None:
        for i, (q, sp) in enumerate(seq):
            st, c = results[i]
            if st != 'ok':
                continue
            mc = model_canon(q, replies[model_line(q)])
            eq = (c[1:3] == mc[1:3]) if q[0] == 'e2v' else same(c, mc)
            if not eq:
                ctx.disagree(q_what(q), case_of(i), brief(c), brief(mc))


def ddmin(prefix, test, budget=70):
    """delta-debugging light: drop chunks of the history prefix while `test(prefix)` still fails"""
    cur = list(prefix)
    size = max(1, len(cur) // 2)
    while cur and budget > 0:
        i, progressed = 0, False
        while i < len(cur) and budget > 0:
            cand = cur[:i] + cur[i + size:]
            budget -= 1
            if test(cand):
                cur, progressed = cand, True
            else:
                i += size
        if size == 1 and not progressed:
            break
        size = max(1, size // 2)
    return cur


def shrink_history(ctx, m, edit, seq, kind, held_index=None):
    """slow path, only for the first failure of a signature: the shortest history (found by ddmin) ending in the same
    call that still shows the same kind of failure ('value' of the last call / 'user' data changed / a 'held' matrix
    modified) on a new object"""
    E0 = []

    def test(prefix):
        try:
            lv = Live(ctx, m, edit, E=E0[0] if E0 else None, label='shrink')
            if not E0:
                E0.append(lv.E)
            hist = list(prefix) + [seq[-1]]
            for q, sp in hist:
                st, c, _ = lv.step(q, sp)
            if kind == 'value':
                return st != 'ok' or not any(judge(lv.E, hist[-1][0], c))
            if kind == 'user':
                return bool(lv.user_changed())
            return bool(lv.held_changed())
        except Exception:
            return False
    try:
        if not test(seq[:-1]):
            return seq
        return ddmin(seq[:-1], test) + [seq[-1]]
    except Exception:
        return seq


def locate_culprit(ctx, m, edit, seq, held_index):
    """slow path, only after a failure: re-run the history on a new object and find the first later call after
    which the result of call #held_index no longer has the value it had at return"""
    try:
        lv = Live(ctx, m, edit, label='locate')
        for i, (q, sp) in enumerate(seq):
            lv.step(q, sp)
            if i > held_index and any(h[0] == held_index for h in lv.held_changed()):
                return i
    except Exception:
        pass
    return None


def run(ctx):
    for name, j in C.corpus_cases(PROP):
        ctx.count('corpus')
        check_mesh(ctx, mg.from_json(j['mesh']) if 'mesh' in j else mg.from_json(j))
    for k in range(ctx.n(130, 1300)):
        check_mesh(ctx, gen_mesh(ctx, k))


def replay(ctx, obj):
    inp = obj['input']
    m = mg.from_json(inp['mesh'])
    m.setdefault('id_style', '?')
    if inp.get('derive'):
        m['derive'] = inp['derive']
    if inp.get('layout'):
        m['layout'] = inp['layout']
    before = len(ctx.failures)
    ctx.c13_replaying = True
    if 'seq' in inp:
        check_mesh(ctx, m, plan={'edit': inp.get('edit'), 'seq': inp['seq'], 'fresh': []})
    else:       # replay files written before the live-object sequences existed: mesh only
        check_mesh(ctx, m)
    return {'failures': ctx.failures[before:][:5], 'disagreements': ctx.disagreements[:5],
            'fails': len(ctx.failures) > before}
